// jsonrun: correspondence harness for property C17 (the JSON single-model runner).
//
//   jsonrun child <0|1>        run sim.RunSingleModelJSON(stdin, stdout, split) and exit (what a
//                              request is executed in: kernel panics happen inside goroutines and
//                              kill the whole process, so every request gets its own process)
//   jsonrun                    command loop, one command per line on stdin, one result line each:
//     DESCRIBE                 -> JSON list of every catalogued model's Description()
//     RUN <split> <base64>     -> R exit=<status> docs=<n> raw=<base64 stdout> panic=<base64> doc=<canonical JSON>
//                                 split 0/1 = re-exec self as child; split 2 = the real ow-single binary ($JSONRUN_OWSINGLE);
//                                 split 3/4 = child2 (split 0/1): RunSingleModelJSON called TWICE on the same stdin
//                                 (whatever the first call's decoder left unread is the second call's request)
//                                 docs = number of JSON documents on stdout (strict decode until EOF), -1 = not valid JSON
//     SESSION <split> k <base64>..  -> S TAB R.. TAB R..   k requests served by ONE process, one call of
//                                 sim.RunSingleModelJSON(reader_i, writer_i, split) each (a long-lived service)
//     DIRECT <dims 0|1> <Model> P n hex.. I k len hex..
//                              -> OK O nout len hex.. S n hex..   direct one-cell run through the model API
//                                 (ApplyParameters / InitialiseStates(1) / Run), PANIC when it panics
//     INITS <Model> P n hex..  -> OK S n hex..   InitialiseStates(1) as the runner calls it | PANIC
//     JSA n NF k (idx cls).. R nd dims.. C nsl (loc.. dims.. step..).. SH shift
//                              -> OK <nested> V start nd dims.. strides.. D len hex.. E cnt hex..  | PANIC
//                                 owjs.JsonSafeArray on a view: ARange(n), k root cells overwritten by NaN/+Inf/-Inf
//                                 (cls 1/2/3), reshaped, then a chain of Slice(loc,dims,step)
package main

import (
	"bufio"
	"bytes"
	"encoding/base64"
	"encoding/json"
	"fmt"
	"io"
	"math"
	"os"
	"os/exec"
	"reflect"
	"regexp"
	"sort"
	"strconv"
	"strings"

	"github.com/flowmatters/openwater-core/data"
	owjs "github.com/flowmatters/openwater-core/io/json"
	_ "github.com/flowmatters/openwater-core/models"
	"github.com/flowmatters/openwater-core/sim"
)

func unhex(s string) float64 {
	u, err := strconv.ParseUint(s, 16, 64)
	if err != nil {
		panic(err)
	}
	return math.Float64frombits(u)
}

func hex(f float64) string { return fmt.Sprintf("%016x", math.Float64bits(f)) }

type toks struct {
	t []string
	i int
}

func (t *toks) next() string { s := t.t[t.i]; t.i++; return s }
func (t *toks) int() int {
	n, err := strconv.Atoi(t.next())
	if err != nil {
		panic(err)
	}
	return n
}
func (t *toks) expect(s string) {
	if g := t.next(); g != s {
		panic("expected " + s + " got " + g)
	}
}
func (t *toks) floats(n int) []float64 {
	r := make([]float64, n)
	for i := range r {
		r[i] = unhex(t.next())
	}
	return r
}
func (t *toks) ints(n int) []int {
	r := make([]int, n)
	for i := range r {
		r[i] = t.int()
	}
	return r
}

// ---------------------------------------------------------------- DESCRIBE
type paramInfo struct {
	Name    string
	Default string // hex bits
	Lo, Hi  string
	Dims    []string
}
type modelInfo struct {
	Name       string
	Parameters []paramInfo
	Inputs     []string
	States     []string
	Outputs    []string
	Dimensions []string
}

func describe(w *bufio.Writer) {
	names := make([]string, 0)
	for k := range sim.Catalog {
		names = append(names, k)
	}
	sort.Strings(names)
	res := make([]modelInfo, 0)
	for _, n := range names {
		d := sim.Catalog[n]().Description()
		mi := modelInfo{Name: n, Inputs: d.Inputs, States: d.States, Outputs: d.Outputs, Dimensions: d.Dimensions}
		for _, p := range d.Parameters {
			mi.Parameters = append(mi.Parameters, paramInfo{p.Name, hex(p.Default), hex(p.Range[0]), hex(p.Range[1]), p.Dimensions})
		}
		res = append(res, mi)
	}
	b, _ := json.Marshal(res)
	w.Write(b)
	w.WriteByte('\n')
}

// ---------------------------------------------------------------- RUN
var (
	reDefault = regexp.MustCompile(`^(?s)(.*) not found, using default=(\S+)$`)
	reMissing = regexp.MustCompile(`^(?s)Missing input: (.*), using 0$`)
	reUnknown = regexp.MustCompile(`^(?s)Unknown model: (.*)$`)
	reLength  = regexp.MustCompile(`^(?s)Input (.*) has (\d+) values, expected (\d+)$`)
)

func canonLog(s string) []interface{} {
	if s == "" {
		return []interface{}{"blank"}
	}
	if s == "No model name provided" {
		return []interface{}{"noname"}
	}
	if s == "No inputs provided" {
		return []interface{}{"noinputs"}
	}
	if m := reDefault.FindStringSubmatch(s); m != nil {
		return []interface{}{"default", m[1], m[2]}
	}
	if m := reMissing.FindStringSubmatch(s); m != nil {
		return []interface{}{"missing", m[1]}
	}
	if m := reUnknown.FindStringSubmatch(s); m != nil {
		return []interface{}{"unknown", m[1]}
	}
	if m := reLength.FindStringSubmatch(s); m != nil {
		return []interface{}{"length", m[1], m[2], m[3]}
	}
	return []interface{}{"other", s}
}

// numbers -> "n:<bits>", strings -> "s:<text>", null/arrays/objects kept
func canonValue(v interface{}) interface{} {
	switch x := v.(type) {
	case nil:
		return nil
	case json.Number:
		f, err := strconv.ParseFloat(string(x), 64)
		if err != nil {
			return "badnum:" + string(x)
		}
		return "n:" + hex(f)
	case string:
		return "s:" + x
	case bool:
		return fmt.Sprintf("b:%v", x)
	case []interface{}:
		r := make([]interface{}, len(x))
		for i, e := range x {
			r[i] = canonValue(e)
		}
		return r
	case map[string]interface{}:
		r := make(map[string]interface{})
		for k, e := range x {
			r[k] = canonValue(e)
		}
		return r
	}
	return "unknown-type"
}

func canonDoc(v interface{}) map[string]interface{} {
	res := map[string]interface{}{"shape_ok": false}
	top, ok := v.(map[string]interface{})
	if !ok {
		return res
	}
	keys := make([]string, 0)
	for k := range top {
		keys = append(keys, k)
	}
	sort.Strings(keys)
	res["keys"] = keys
	rr, ok2 := top["RunResults"].(map[string]interface{})
	if len(keys) != 2 || !ok2 || len(rr) != 2 {
		return res
	}
	if _, has := rr["Outputs"]; !has {
		return res
	}
	if _, has := rr["States"]; !has {
		return res
	}
	switch lg := top["Log"].(type) {
	case nil:
		res["log"] = nil
	case []interface{}:
		l := make([]interface{}, len(lg))
		for i, e := range lg {
			s, isStr := e.(string)
			if !isStr {
				return res
			}
			l[i] = canonLog(s)
		}
		res["log"] = l
	default:
		return res
	}
	res["shape_ok"] = true
	res["outputs"] = canonValue(rr["Outputs"])
	res["states"] = canonValue(rr["States"])
	return res
}

func runRequest(t *toks, w *bufio.Writer) {
	split := t.next()
	tok := t.next()
	if tok == "-" { // the empty request
		tok = ""
	}
	req, err := base64.StdEncoding.DecodeString(tok)
	if err != nil {
		panic(err)
	}
	var cmd *exec.Cmd
	if split == "2" {
		cmd = exec.Command(os.Getenv("JSONRUN_OWSINGLE"))
	} else if split == "3" || split == "4" {
		// the same reader handed to RunSingleModelJSON twice (two calls on one stream)
		self, err := os.Executable()
		if err != nil {
			panic(err)
		}
		cmd = exec.Command(self, "child2", map[string]string{"3": "0", "4": "1"}[split])
	} else {
		self, err := os.Executable()
		if err != nil {
			panic(err)
		}
		cmd = exec.Command(self, "child", split)
	}
	cmd.Stdin = bytes.NewReader(req)
	var so, se bytes.Buffer
	cmd.Stdout = &so
	cmd.Stderr = &se
	status := 0
	if err := cmd.Run(); err != nil {
		if ee, ok := err.(*exec.ExitError); ok {
			status = ee.ExitCode()
		} else {
			status = -99
		}
	}
	fmt.Fprintln(w, resultLine(status, so.Bytes(), se.String()))
}

// resultLine: "R exit=.. docs=.. raw=.. panic=.. doc=.." for what one call of the runner wrote
func resultLine(status int, out []byte, stderr string) string {
	docs := 0
	var first interface{}
	dec := json.NewDecoder(bytes.NewReader(out))
	dec.UseNumber()
	for {
		var v interface{}
		err := dec.Decode(&v)
		if err == io.EOF {
			break
		}
		if err != nil {
			docs = -1
			break
		}
		if docs == 0 {
			first = v
		}
		docs++
	}
	pmsg := ""
	for _, l := range strings.Split(stderr, "\n") {
		if strings.HasPrefix(l, "panic:") || strings.HasPrefix(l, "fatal error:") {
			pmsg = l
			break
		}
	}
	var doc interface{}
	if docs >= 1 {
		doc = canonDoc(first)
	}
	cb, _ := json.Marshal(doc)
	return fmt.Sprintf("R exit=%d docs=%d raw=%s panic=%s doc=%s", status, docs,
		base64.StdEncoding.EncodeToString(out), base64.StdEncoding.EncodeToString([]byte(pmsg)), cb)
}

// SESSION <split 0|1> k b64.. : ONE process (jsonrun session <split>) serves the k requests one after the
// other, each through its own call sim.RunSingleModelJSON(reader_i, writer_i, split) -- a long-lived service.
// -> "S" TAB R-line_1 TAB .. TAB R-line_k ; members after a crash of the process have exit=-98 (not run),
// the member it died on carries the exit status.
func runSession(t *toks, w *bufio.Writer) {
	split := t.next()
	k := t.int()
	var in bytes.Buffer
	for i := 0; i < k; i++ {
		tok := t.next()
		if tok == "-" {
			tok = ""
		}
		in.WriteString(tok + "\n")
	}
	self, err := os.Executable()
	if err != nil {
		panic(err)
	}
	cmd := exec.Command(self, "session", split)
	cmd.Stdin = &in
	var so, se bytes.Buffer
	cmd.Stdout = &so
	cmd.Stderr = &se
	status := 0
	if err := cmd.Run(); err != nil {
		if ee, ok := err.(*exec.ExitError); ok {
			status = ee.ExitCode()
		} else {
			status = -99
		}
	}
	var frames []string
	for _, l := range strings.Split(so.String(), "\n") {
		if strings.HasPrefix(l, "F ") {
			frames = append(frames, l[2:])
		}
	}
	parts := []string{"S"}
	for i := 0; i < k; i++ {
		switch {
		case i < len(frames):
			raw, _ := base64.StdEncoding.DecodeString(frames[i])
			parts = append(parts, resultLine(0, raw, ""))
		case i == len(frames):
			st := status
			if st == 0 {
				st = -97 // the process ended normally without answering
			}
			parts = append(parts, resultLine(st, nil, se.String()))
		default:
			parts = append(parts, resultLine(-98, nil, ""))
		}
	}
	fmt.Fprintln(w, strings.Join(parts, "\t"))
}

func sessionChild(split bool) {
	realOut := os.Stdout
	if devnull, err := os.OpenFile(os.DevNull, os.O_WRONLY, 0); err == nil {
		os.Stdout = devnull // kernels' fmt.Printf diagnostics must not break the framing
	}
	out := bufio.NewWriter(realOut)
	sc := bufio.NewScanner(os.Stdin)
	sc.Buffer(make([]byte, 1<<20), 1<<28)
	for sc.Scan() {
		req, err := base64.StdEncoding.DecodeString(strings.TrimSpace(sc.Text()))
		if err != nil {
			panic(err)
		}
		var buf bytes.Buffer
		sim.RunSingleModelJSON(bytes.NewReader(req), &buf, split)
		fmt.Fprintf(out, "F %s\n", base64.StdEncoding.EncodeToString(buf.Bytes()))
		out.Flush()
	}
}

// ---------------------------------------------------------------- DIRECT
func direct(t *toks, w *bufio.Writer) {
	withDims := t.next() == "1"
	factory := sim.Catalog[t.next()]
	if factory == nil {
		fmt.Fprintln(w, "NOMODEL")
		return
	}
	t.expect("P")
	ps := t.floats(t.int())
	t.expect("I")
	k := t.int()
	length := t.int()
	model := factory()
	params := data.NewArray2DFloat64(len(ps), 1)
	for i, v := range ps {
		params.Set2(i, 0, v)
	}
	if withDims {
		dims := model.FindDimensions(params)
		model.InitialiseDimensions(dims)
	}
	model.ApplyParameters(params)
	states := model.InitialiseStates(1)
	ns := states.Len(1)
	init := make([]float64, ns)
	for i := range init {
		init[i] = states.Get2(0, i)
	}
	inputs := data.NewArray3DFloat64(1, k, length)
	for i := 0; i < k; i++ {
		row := t.floats(length)
		for j, v := range row {
			inputs.Set3(0, i, j, v)
		}
	}
	outputs := sim.InitialiseOutputs(model, length, 1)
	model.Run(inputs, states, outputs)
	nout := outputs.Len(1)
	var b strings.Builder
	fmt.Fprintf(&b, "OK O %d %d", nout, length)
	for i := 0; i < nout; i++ {
		for j := 0; j < length; j++ {
			b.WriteString(" " + hex(outputs.Get3(0, i, j)))
		}
	}
	nsf := states.Len(1)
	fmt.Fprintf(&b, " S %d", nsf)
	for i := 0; i < nsf; i++ {
		b.WriteString(" " + hex(states.Get2(0, i)))
	}
	fmt.Fprintf(&b, " INIT %d", ns)
	for i := 0; i < ns; i++ {
		b.WriteString(" " + hex(init[i]))
	}
	fmt.Fprintln(w, b.String())
}

// INITS <Model> P n hex..  ->  OK S n hex..   the state vector of InitialiseStates(1) exactly as the
// runner obtains it (ApplyParameters of the one-cell column, no dimension initialisation)
func inits(t *toks, w *bufio.Writer) {
	factory := sim.Catalog[t.next()]
	if factory == nil {
		fmt.Fprintln(w, "NOMODEL")
		return
	}
	t.expect("P")
	ps := t.floats(t.int())
	model := factory()
	params := data.NewArray2DFloat64(len(ps), 1)
	for i, v := range ps {
		params.Set2(i, 0, v)
	}
	model.ApplyParameters(params)
	st := model.InitialiseStates(1)
	n := st.Len(1)
	var b strings.Builder
	fmt.Fprintf(&b, "OK S %d", n)
	for i := 0; i < n; i++ {
		b.WriteString(" " + hex(st.Get2(0, i)))
	}
	fmt.Fprintln(w, b.String())
}

// ---------------------------------------------------------------- JSA
func nestedString(b *strings.Builder, v interface{}) {
	switch x := v.(type) {
	case []interface{}:
		b.WriteByte('[')
		for i, e := range x {
			if i > 0 {
				b.WriteByte(',')
			}
			nestedString(b, e)
		}
		b.WriteByte(']')
	case float64:
		b.WriteString("n" + hex(x))
	case string:
		b.WriteString("s" + x)
	default:
		b.WriteString("?")
	}
}

func intField(v reflect.Value, name string) []int {
	f := v.FieldByName(name)
	r := make([]int, f.Len())
	for i := range r {
		r[i] = int(f.Index(i).Int())
	}
	return r
}

func jsa(t *toks, w *bufio.Writer) {
	n := t.int()
	root := data.ARangeFloat64(n)
	t.expect("NF")
	for k := t.int(); k > 0; k-- {
		idx := t.int()
		var v float64
		switch t.int() {
		case 1:
			v = math.NaN()
		case 2:
			v = math.Inf(1)
		case 3:
			v = math.Inf(-1)
		default:
			v = math.Copysign(0, -1)
		}
		root.Set([]int{idx}, v)
	}
	t.expect("R")
	nd := t.int()
	arr := root.MustReshape(t.ints(nd))
	t.expect("C")
	for k := t.int(); k > 0; k-- {
		loc := t.ints(nd)
		dims := t.ints(nd)
		step := t.ints(nd)
		arr = arr.Slice(loc, dims, step)
	}
	t.expect("SH")
	shift := t.int()
	// the view as the implementation holds it (exported fields, read through reflection)
	rv := reflect.ValueOf(arr).Elem()
	start := int(rv.FieldByName("Start").Int())
	dims := append([]int{}, intField(rv, "Dims")...)
	strides := intField(rv, "OffsetStep")
	impl := rv.FieldByName("Impl")
	// every element of the view through the implementation's own Get (oracle side)
	var elems []float64
	cnt := data.Product(dims)
	if cnt > 0 {
		idx := arr.NewIndex(0)
		for p := 0; p < cnt; p++ {
			elems = append(elems, arr.Get(idx))
			data.Increment(idx, dims)
		}
	}
	res := owjs.JsonSafeArray(arr, shift)
	var b strings.Builder
	b.WriteString("OK ")
	nestedString(&b, res)
	fmt.Fprintf(&b, " V %d %d", start, len(dims))
	for _, d := range dims {
		fmt.Fprintf(&b, " %d", d)
	}
	for _, s := range strides {
		fmt.Fprintf(&b, " %d", s)
	}
	fmt.Fprintf(&b, " D %d", impl.Len())
	for i := 0; i < impl.Len(); i++ {
		b.WriteString(" " + hex(impl.Index(i).Float()))
	}
	fmt.Fprintf(&b, " E %d", len(elems))
	for _, e := range elems {
		b.WriteString(" " + hex(e))
	}
	fmt.Fprintln(w, b.String())
}

// JSV hex -> canonical leaf of owjs.JsonSafeValue
func jsv(t *toks, w *bufio.Writer) {
	var b strings.Builder
	nestedString(&b, owjs.JsonSafeValue(unhex(t.next())))
	fmt.Fprintln(w, "OK "+b.String())
}

func main() {
	if len(os.Args) >= 3 && os.Args[1] == "session" {
		sessionChild(os.Args[2] == "1")
		return
	}
	if len(os.Args) >= 3 && os.Args[1] == "child2" {
		sim.RunSingleModelJSON(os.Stdin, os.Stdout, os.Args[2] == "1")
		sim.RunSingleModelJSON(os.Stdin, os.Stdout, os.Args[2] == "1")
		return
	}
	if len(os.Args) >= 3 && os.Args[1] == "child" {
		sim.RunSingleModelJSON(os.Stdin, os.Stdout, os.Args[2] == "1")
		return
	}
	sc := bufio.NewScanner(os.Stdin)
	sc.Buffer(make([]byte, 1<<20), 1<<28)
	// some kernels print diagnostics with fmt.Printf: keep them out of the result stream of
	// the in-process commands (DIRECT); the RUN children have their own stdout, which is
	// what the property is about
	realOut := os.Stdout
	if devnull, err := os.OpenFile(os.DevNull, os.O_WRONLY, 0); err == nil {
		os.Stdout = devnull
	}
	w := bufio.NewWriter(realOut)
	defer w.Flush()
	for sc.Scan() {
		line := strings.TrimSpace(sc.Text())
		if line == "" {
			continue
		}
		t := &toks{t: strings.Fields(line)}
		func() {
			defer func() {
				if r := recover(); r != nil {
					fmt.Fprintln(w, "PANIC")
				}
			}()
			switch cmd := t.next(); cmd {
			case "DESCRIBE":
				describe(w)
			case "RUN":
				runRequest(t, w)
			case "SESSION":
				runSession(t, w)
			case "DIRECT":
				direct(t, w)
			case "INITS":
				inits(t, w)
			case "JSA":
				jsa(t, w)
			case "JSV":
				jsv(t, w)
			default:
				fmt.Fprintln(w, "NOCMD")
			}
		}()
		w.Flush()
	}
}
