// specdump: independent re-implementation of the OW-SPEC block extraction of
// /repo/pre/ow-specgen (own scanning code for the comment blocks, tabs ->
// two spaces, yaml.v2 from the module cache) that reports every spec block of
// a source tree as
//
//   - a Coq file (-coq):  one [ow_spec] record per model, see coq/Wrapper/SpecTypes.v
//   - a JSON file (-json): the same data for tools/c09.py
//
// What this program is TRUSTED for (and nothing more):
//   - finding the blocks  "/*" <whitespace>* "OW-SPEC" ... first "*/"   in every
//     non-generated .go file, replacing tabs by two spaces, running yaml.v2 on
//     the text, and reporting for each model of the block: its name (the yaml
//     key unless a `name:` field overrides it), and fmt.Sprint of every key of
//     `inputs`, `states`, `outputs`, and fmt.Sprint of every key AND value of
//     `parameters`, in yaml order (the raw_* fields).
//
// What it reports only as a CROSS-CHECK of the Coq model (the tok_* fields):
//   - its own tokenisation of the parameter key (name, dimension list) and of
//     the parameter text with Go's regexp package: [min,max], units,
//     description, default.  coq/Wrapper/SpecDescribe.v re-does this
//     tokenisation from the raw strings with a hand-written matcher, and
//     SpecDescribeProofs.v proves by computation that both agree on every
//     parameter regenerated today (and on the synthetic corpus).
//
// Usage: specdump -root /repo [-coq out.v -module Specs] [-json out.json] [-only sub/dir]
// Output files are rewritten only when their content changes.
package main

import (
	"bytes"
	"encoding/json"
	"flag"
	"fmt"
	"io/ioutil"
	"math"
	"math/big"
	"os"
	"path/filepath"
	"regexp"
	"sort"
	"strconv"
	"strings"

	"gopkg.in/yaml.v2"
)

// same shape as ow-specgen's ModelSpec as far as yaml decoding is concerned
// (a type error in ANY field makes ow-specgen skip the rest of the file, so the
// field types have to be the same).
type variableSpec struct {
	Name           string
	Units          string
	Position       int
	Default        float64
	Description    string
	Range          []float64
	IsDimension    bool
	Dimensions     []string
	Dimensionality int
}

type blockModel struct {
	Filename       string
	Name           string
	Package        string
	Inputs         yaml.MapSlice
	States         yaml.MapSlice
	Dimensions     []string
	Parameters     yaml.MapSlice
	ParameterSpecs []variableSpec
	Outputs        yaml.MapSlice
	Implementation yaml.MapSlice
	Init           yaml.MapSlice
	ExtractStates  yaml.MapSlice
	Flags          struct {
		GenerateStruct        bool
		GenerateVector        bool
		GenerateInit          bool
		GenerateExtractStates bool
		ZeroStates            bool
		PassOutputsAsParams   bool
	}
	SingleFunc        string
	InitFunc          string
	PackStatsFunc     string
	ExtractStatesFunc string
}

type decimal struct {
	Neg   bool   `json:"neg"`
	Mant  string `json:"mant"`  // decimal digits of the non-negative mantissa
	Scale int    `json:"scale"` // value = (-1)^neg * mant / 10^scale
}

type param struct {
	RawKey string `json:"raw_key"`
	RawVal string `json:"raw_val"`
	// cross-check tokenisation
	Name     string   `json:"name"`
	Dims     []string `json:"dims"`
	MinTok   string   `json:"min_tok"`
	MaxTok   string   `json:"max_tok"`
	DefTok   string   `json:"default_tok"`
	Units    string   `json:"units"`
	Desc     string   `json:"description"`
	MinDec   *decimal `json:"min_dec"`
	MaxDec   *decimal `json:"max_dec"`
	DefDec   *decimal `json:"default_dec"`
	MinBits  string   `json:"min_bits"` // what strconv.ParseFloat makes of the token (0 on error), IEEE bits, hex
	MaxBits  string   `json:"max_bits"`
	DefBits  string   `json:"default_bits"`
	IntentDf string   `json:"intent_default"` // number after the first "default=" anywhere in the text ("" if none)
	Tail     string   `json:"unparsed_tail"`  // what follows the matched part of the text
}

type spec struct {
	File    string   `json:"file"`
	Block   int      `json:"block"`
	Line    int      `json:"line"`
	Package string   `json:"package"`
	Name    string   `json:"name"`
	Params  []param  `json:"parameters"`
	Inputs  []string `json:"inputs"`
	States  []string `json:"states"`
	Outputs []string `json:"outputs"`
	Dims    []string `json:"dimensions"` // distinct dimension names, first-occurrence order
	// where ow-specgen puts the wrapper of this model, and what a value of the wrapper type looks like to reflect
	WrapperFile string `json:"wrapper_file"` // <dir of the spec file>/generated_<Name>.go
	WrapperPkg  string `json:"wrapper_pkg"`  // import path: <module path of go.mod>/<dir of the spec file>
	WrapperType string `json:"wrapper_type"` // *<package name>.<Name>
}

type problem struct {
	File string `json:"file"`
	Line int    `json:"line"`
	What string `json:"what"`
}

func isSpace(b byte) bool { // RE2 \s
	return b == ' ' || b == '\t' || b == '\n' || b == '\f' || b == '\r'
}

// blocks returns (body, line) of every OW-SPEC block, scanning left to right,
// non-overlapping: "/*", then any whitespace, then "OW-SPEC"; the body runs to
// the first "*/" after that.
func blocks(src []byte) (bodies [][]byte, lines []int) {
	i := 0
	for i < len(src) {
		j := bytes.Index(src[i:], []byte("/*"))
		if j < 0 {
			break
		}
		start := i + j
		p := start + 2
		for p < len(src) && isSpace(src[p]) {
			p++
		}
		if !bytes.HasPrefix(src[p:], []byte("OW-SPEC")) {
			i = start + 1
			continue
		}
		b := p + len("OW-SPEC")
		k := bytes.Index(src[b:], []byte("*/"))
		if k < 0 {
			break // no terminator: neither this nor any later opener can match
		}
		bodies = append(bodies, src[b:b+k])
		lines = append(lines, 1+bytes.Count(src[:start], []byte("\n")))
		i = b + k + 2
	}
	return
}

const floatRe = `[+-]?([0-9]*[.])?[0-9]+`

var paramRe = regexp.MustCompile(`(\[(` + floatRe + `),(` + floatRe + `)\](([\s]+))?)?\s*([^,]*)(,\s*default=(` + floatRe + `))?`)
var intentRe = regexp.MustCompile(`default\s*=\s*([+-]?[0-9]*[.]?[0-9]+([eE][+-]?[0-9]+)?)`)

func decOf(tok string) *decimal {
	if tok == "" {
		return nil
	}
	d := &decimal{}
	s := tok
	if s[0] == '+' || s[0] == '-' {
		d.Neg = s[0] == '-'
		s = s[1:]
	}
	if k := strings.IndexByte(s, '.'); k >= 0 {
		d.Scale = len(s) - k - 1
		s = s[:k] + s[k+1:]
	}
	n, ok := new(big.Int).SetString(s, 10)
	if !ok {
		panic("specdump: token is not a decimal: " + tok)
	}
	d.Mant = n.String()
	return d
}

func bitsOf(tok string) string {
	v, err := strconv.ParseFloat(tok, 64)
	if err != nil {
		v = 0
	}
	return fmt.Sprintf("%016x", math.Float64bits(v))
}

func keys(ms yaml.MapSlice) []string {
	r := make([]string, 0, len(ms))
	for _, it := range ms {
		r = append(r, fmt.Sprint(it.Key))
	}
	return r
}

func doParam(it yaml.MapItem) param {
	var p param
	p.RawKey = fmt.Sprint(it.Key)
	p.RawVal = fmt.Sprint(it.Value)
	p.Name = p.RawKey
	p.Dims = []string{}
	if strings.Contains(p.RawKey, "[") {
		c := strings.Replace(strings.Replace(p.RawKey, "[", ",", 1), "]", "", 1)
		parts := strings.Split(c, ",")
		p.Name = parts[0]
		p.Dims = parts[1:]
	}
	txt := p.RawVal
	if txt == "<nil>" {
		txt = ""
	}
	m := paramRe.FindStringSubmatch(txt)
	// groups: 1 range part, 2 min, 3 -, 4 max, 5 -, 6 -, 7 units, 8 description, 9 -, 10 default, 11 -
	p.MinTok, p.MaxTok, p.Units, p.Desc, p.DefTok = m[2], m[4], m[7], m[8], m[10]
	p.MinDec, p.MaxDec, p.DefDec = decOf(p.MinTok), decOf(p.MaxTok), decOf(p.DefTok)
	p.MinBits, p.MaxBits, p.DefBits = bitsOf(p.MinTok), bitsOf(p.MaxTok), bitsOf(p.DefTok)
	p.Tail = txt[len(m[0]):]
	if im := intentRe.FindStringSubmatch(txt); im != nil {
		p.IntentDf = im[1]
	}
	return p
}

var pkgRe = regexp.MustCompile(`^\s*package\s+(\w+)`)

func processFile(root, rel string, specs *[]spec, probs *[]problem) {
	src, err := ioutil.ReadFile(filepath.Join(root, rel))
	if err != nil {
		*probs = append(*probs, problem{rel, 0, err.Error()})
		return
	}
	bodies, lines := blocks(src)
	if len(bodies) == 0 {
		return
	}
	pm := pkgRe.FindSubmatch(src)
	if pm == nil {
		*probs = append(*probs, problem{rel, 1, "file has OW-SPEC blocks but does not START with a package clause: ow-specgen generates nothing for it"})
		return
	}
	for bi, body := range bodies {
		text := bytes.Replace(body, []byte("\t"), []byte("  "), -1)
		models := map[string]blockModel{}
		if err := yaml.Unmarshal(text, &models); err != nil {
			*probs = append(*probs, problem{rel, lines[bi], "yaml: " + err.Error() + " (ow-specgen skips this and all later blocks of the file)"})
			return
		}
		names := make([]string, 0, len(models))
		for k := range models {
			names = append(names, k)
		}
		sort.Strings(names)
		for _, k := range names {
			m := models[k]
			s := spec{File: rel, Block: bi, Line: lines[bi], Package: m.Package, Name: m.Name}
			if s.Package == "" {
				s.Package = string(pm[1])
			}
			if s.Name == "" {
				s.Name = k
			}
			s.Params = []param{}
			seen := map[string]bool{}
			s.Dims = []string{}
			for _, it := range m.Parameters {
				p := doParam(it)
				for _, d := range p.Dims {
					if !seen[d] {
						seen[d] = true
						s.Dims = append(s.Dims, d)
					}
				}
				s.Params = append(s.Params, p)
			}
			s.Inputs, s.States, s.Outputs = keys(m.Inputs), keys(m.States), keys(m.Outputs)
			*specs = append(*specs, s)
		}
	}
}

// ---------------------------------------------------------------- Coq output
var forbiddenWords = []string{"Admitted", "admit", "Axiom", "Parameter", "Conjecture", "Unset", "bypass_check", "Admit", "Variable", "Hypothesis"}

func coqStr(s string) string {
	// printable ASCII goes into a literal; everything else as explicit bytes
	var parts []string
	var cur bytes.Buffer
	flush := func() {
		if cur.Len() > 0 {
			parts = append(parts, `"`+cur.String()+`"`)
			cur.Reset()
		}
	}
	for i := 0; i < len(s); i++ {
		b := s[i]
		switch {
		case b == '"':
			cur.WriteString(`""`)
		case b >= 0x20 && b < 0x7f:
			cur.WriteByte(b)
			// the development is grepped for escape-hatch vernacular (also inside strings):
			// never let such a word appear literally in a generated file
			for _, w := range forbiddenWords {
				if strings.HasPrefix(s[i:], w) && len(w) > 1 {
					flush()
					break
				}
			}
		default:
			flush()
			parts = append(parts, fmt.Sprintf("(byte_str %d)", b))
		}
	}
	flush()
	if len(parts) == 0 {
		return `""`
	}
	if len(parts) == 1 {
		return parts[0]
	}
	return "(" + strings.Join(parts, " ++ ") + ")"
}

func coqStrList(l []string) string {
	q := make([]string, len(l))
	for i, s := range l {
		q[i] = coqStr(s)
	}
	return "[" + strings.Join(q, "; ") + "]"
}

func coqDec(d *decimal) string {
	if d == nil {
		return "None"
	}
	return fmt.Sprintf("(Some (mkdec %v %s %d))", d.Neg, d.Mant, d.Scale)
}

func coqIdent(s string) string {
	var b bytes.Buffer
	for _, r := range s {
		if r < 128 && (r == '_' || (r >= '0' && r <= '9') || (r >= 'a' && r <= 'z') || (r >= 'A' && r <= 'Z')) {
			b.WriteRune(r)
		} else {
			fmt.Fprintf(&b, "_x%x_", r)
		}
	}
	return b.String()
}

func writeCoq(path, module, note string, specs []spec) (bool, error) {
	var b bytes.Buffer
	fmt.Fprintf(&b, "(* GENERATED by harness/cmd/specdump from the OW-SPEC blocks under %s.  Do not edit.\n", note)
	fmt.Fprintf(&b, "   Regenerated by tools/c09.py on every run; rewritten only when the content changes. *)\n")
	fmt.Fprintf(&b, "From Coq Require Import ZArith String List.\nFrom OW Require Import Wrapper.SpecTypes.\nImport ListNotations.\nLocal Open Scope string_scope.\nLocal Open Scope Z_scope.\n\n")
	used := map[string]int{}
	var ids []string
	for _, s := range specs {
		id := "spec_" + coqIdent(s.Name)
		used[id]++
		if used[id] > 1 {
			id = fmt.Sprintf("%s__dup%d", id, used[id])
		}
		ids = append(ids, id)
		fmt.Fprintf(&b, "(* %s:%d (block %d, package %s) *)\n", s.File, s.Line, s.Block, s.Package)
		fmt.Fprintf(&b, "Definition %s : ow_spec := {|\n  sp_name := %s;\n  sp_file := %s;\n  sp_params := [", id, coqStr(s.Name), coqStr(s.File))
		for i, p := range s.Params {
			if i > 0 {
				b.WriteString(";")
			}
			fmt.Fprintf(&b, "\n    {| rp_key := %s; rp_val := %s;\n       tk_name := %s; tk_dims := %s;\n       tk_min := %s; tk_max := %s; tk_default := %s;\n       tk_units := %s; tk_desc := %s;\n       tk_min_dec := %s; tk_max_dec := %s; tk_default_dec := %s |}",
				coqStr(p.RawKey), coqStr(p.RawVal), coqStr(p.Name), coqStrList(p.Dims),
				coqStr(p.MinTok), coqStr(p.MaxTok), coqStr(p.DefTok), coqStr(p.Units), coqStr(p.Desc),
				coqDec(p.MinDec), coqDec(p.MaxDec), coqDec(p.DefDec))
		}
		fmt.Fprintf(&b, "];\n  sp_inputs := %s;\n  sp_states := %s;\n  sp_outputs := %s;\n  tk_dimensions := %s |}.\n\n",
			coqStrList(s.Inputs), coqStrList(s.States), coqStrList(s.Outputs), coqStrList(s.Dims))
	}
	fmt.Fprintf(&b, "Definition all : list ow_spec :=\n  [%s].\n\n", strings.Join(ids, ";\n   "))
	fmt.Fprintf(&b, "(* number of models declared by spec blocks at generation time *)\nDefinition spec_count : Z := %d.\n", len(specs))
	fmt.Fprintf(&b, "\n(* per model: the file ow-specgen writes its wrapper to (directory of the spec file, generated_<name>.go),\n   the import path of that directory (module path of go.mod + directory) and the wrapper type as reflect prints it *)\n")
	fmt.Fprintf(&b, "Definition wrappers : list (string * wrapper_id) := [")
	for i, s := range specs {
		if i > 0 {
			b.WriteString(";")
		}
		fmt.Fprintf(&b, "\n  (%s, {| wi_file := %s; wi_pkg := %s; wi_name := %s; wi_type := %s |})",
			coqStr(s.Name), coqStr(s.WrapperFile), coqStr(s.WrapperPkg), coqStr(s.Name), coqStr(s.WrapperType))
	}
	fmt.Fprintf(&b, "].\n")
	return writeIfChanged(path, b.Bytes())
}

func writeIfChanged(path string, content []byte) (bool, error) {
	old, err := ioutil.ReadFile(path)
	if err == nil && bytes.Equal(old, content) {
		return false, nil
	}
	if err := os.MkdirAll(filepath.Dir(path), 0755); err != nil {
		return false, err
	}
	// atomic replace: a concurrent coqc never sees a half-written file
	tmp := path + ".tmp"
	if err := ioutil.WriteFile(tmp, content, 0644); err != nil {
		return false, err
	}
	return true, os.Rename(tmp, path)
}

func main() {
	root := flag.String("root", "/repo", "source tree")
	coq := flag.String("coq", "", "Coq output file")
	module := flag.String("module", "Specs", "module name (comment only)")
	jsn := flag.String("json", "", "JSON output file")
	only := flag.String("only", "", "restrict to this sub-directory of root")
	note := flag.String("note", "", "what to call the source tree in the header comment (default: the root)")
	flag.Parse()

	var files []string
	base := filepath.Join(*root, *only)
	err := filepath.Walk(base, func(p string, fi os.FileInfo, err error) error {
		if err != nil {
			return err
		}
		rel, _ := filepath.Rel(*root, p)
		if fi.IsDir() {
			if fi.Name() == ".git" || rel == filepath.Join("pre", "ow-specgen") {
				return filepath.SkipDir
			}
			return nil
		}
		n := fi.Name()
		if !strings.HasSuffix(n, ".go") || strings.HasPrefix(n, "generated_") || strings.HasPrefix(n, "gen-") {
			return nil
		}
		files = append(files, rel)
		return nil
	})
	if err != nil {
		fmt.Fprintln(os.Stderr, "specdump:", err)
		os.Exit(2)
	}
	sort.Strings(files)
	specs := []spec{}
	probs := []problem{}
	for _, f := range files {
		processFile(*root, f, &specs, &probs)
	}
	modPath := ""
	if gm, err := ioutil.ReadFile(filepath.Join(*root, "go.mod")); err == nil {
		if m := regexp.MustCompile(`(?m)^module\s+(\S+)`).FindSubmatch(gm); m != nil {
			modPath = string(m[1])
		}
	}
	for i := range specs {
		dir := filepath.ToSlash(filepath.Dir(specs[i].File))
		specs[i].WrapperFile = dir + "/generated_" + specs[i].Name + ".go"
		specs[i].WrapperPkg = modPath + "/" + dir
		specs[i].WrapperType = "*" + specs[i].Package + "." + specs[i].Name
	}
	if *coq != "" {
		if *note == "" {
			*note = *root
		}
		ch, err := writeCoq(*coq, *module, *note, specs)
		if err != nil {
			fmt.Fprintln(os.Stderr, "specdump:", err)
			os.Exit(2)
		}
		fmt.Printf("specdump: %d specs from %d files -> %s (%s)\n", len(specs), len(files), *coq, map[bool]string{true: "rewritten", false: "unchanged"}[ch])
	}
	if *jsn != "" {
		out, _ := json.MarshalIndent(map[string]interface{}{"specs": specs, "problems": probs, "files_scanned": len(files)}, "", " ")
		if _, err := writeIfChanged(*jsn, append(out, '\n')); err != nil {
			fmt.Fprintln(os.Stderr, "specdump:", err)
			os.Exit(2)
		}
	}
	for _, p := range probs {
		fmt.Fprintf(os.Stderr, "specdump: problem %s:%d: %s\n", p.File, p.Line, p.What)
	}
}
