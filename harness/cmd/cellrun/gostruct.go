// Semantic analysis of the goroutine structure of a function that fans work out
// to goroutines and joins them over a completion channel (the generated Run of
// every model; runGeneration of ow-sim).  Nothing here depends on identifier
// NAMES: variables are identified by their declaration (ast.Object), channels by
// being made with make(chan ..) / declared with a channel type, counts by
// symbolic trip counts of simple counted loops.
//
// RECOGNISED structure (everything else is reported as not recognised, with reasons):
//   * every `go` statement starts a function literal, a local bound once to a
//     function literal, or a function declared in the same package; its body is
//     analysed with the parameters bound to the call's arguments;
//   * one completion channel: a local made with make(chan ..) on which every
//     started goroutine sends EXACTLY once on every path (directly or in a
//     deferred literal) and on which the starter receives only in its join loop;
//   * launches: the go statement is executed exactly once per iteration of a
//     simple counted loop (for v := A; v <|<=|>|>= B; v++|v--), the loop variable
//     reaches the goroutine BY VALUE (argument / per-iteration copy), and the
//     indices cover [0, count) — or (counter form) a counter is incremented once
//     next to every launch and is the trip count of the join loop;
//   * receives: exactly one receive per iteration of a simple counted loop
//     whose symbolic trip count equals the number of launches (after
//     substituting locals that are plain copies);
//   * for Run: that count is <states>.Len(sim.DIMS_CELL), <states> being the
//     ND2 parameter of the method;
//   * captured variables (literal only) are classified by USE: written inside
//     the goroutine (assignment, element assignment, ++/--, op=) or written by
//     the starter while goroutines run = shared state written (reported);
//     everything else captured is shared READ-ONLY data.
package main

import (
	"bytes"
	"fmt"
	"go/ast"
	"go/parser"
	"go/printer"
	"go/token"
	"path/filepath"
	"sort"
	"strings"
)

type structReport struct {
	File        string   `json:"file"`
	Model       string   `json:"model"`
	Func        string   `json:"func"`
	Recognised  bool     `json:"recognised"`
	Problems    []string `json:"problems"`  // why the structure is not recognised
	GoStmts     int      `json:"go_stmts"`
	Callee      string   `json:"callee"`      // literal | local-literal | named-function
	LaunchForm  string   `json:"launch_form"` // counted | counter
	Launches    string   `json:"launches"`    // symbolic count
	Receives    string   `json:"receives"`
	Channel     string   `json:"channel"`     // name of the completion channel / WaitGroup (information only)
	Join        string   `json:"join"`        // channel | waitgroup:add-per-launch | waitgroup:add-total
	WrittenCaptured []string `json:"written_captured"`
	ReadCaptured    []string `json:"read_captured"`
	ChanCaptured    []string `json:"channel_captured"`
	ObservationOnly []string `json:"observation_only"` // shared state written under ONE local mutex and only printed after the join
}

type analyser struct {
	fset   *token.FileSet
	files  []*ast.File
	fd     *ast.FuncDecl
	rep    *structReport
	assign map[*ast.Object]int      // number of assignments (definition included)
	defs   map[*ast.Object]ast.Expr // defining expression of single-assignment locals
}

func (a *analyser) problem(f string, args ...interface{}) {
	a.rep.Problems = append(a.rep.Problems, fmt.Sprintf(f, args...))
}

func (a *analyser) text(e ast.Node) string {
	var b bytes.Buffer
	printer.Fprint(&b, a.fset, e)
	return strings.Join(strings.Fields(b.String()), " ")
}

func unparen(e ast.Expr) ast.Expr {
	for {
		p, ok := e.(*ast.ParenExpr)
		if !ok {
			return e
		}
		e = p.X
	}
}

func identObj(e ast.Expr) *ast.Object {
	if id, ok := unparen(e).(*ast.Ident); ok {
		return id.Obj
	}
	return nil
}

// base variable of an lvalue: x, x[i], x.f, *x, (x)
func baseObj(e ast.Expr) *ast.Object {
	for {
		switch x := e.(type) {
		case *ast.Ident:
			return x.Obj
		case *ast.IndexExpr:
			e = x.X
		case *ast.SelectorExpr:
			e = x.X
		case *ast.StarExpr:
			e = x.X
		case *ast.ParenExpr:
			e = x.X
		case *ast.SliceExpr:
			e = x.X
		default:
			return nil
		}
	}
}

// ---------------------------------------------------------------- assignments / copies

func (a *analyser) collectAssignments() {
	a.assign = map[*ast.Object]int{}
	a.defs = map[*ast.Object]ast.Expr{}
	ast.Inspect(a.fd.Body, func(n ast.Node) bool {
		switch s := n.(type) {
		case *ast.AssignStmt:
			for i, l := range s.Lhs {
				if o := identObj(l); o != nil {
					a.assign[o]++
					if len(s.Lhs) == len(s.Rhs) && s.Tok == token.DEFINE {
						a.defs[o] = s.Rhs[i]
					} else if len(s.Lhs) == len(s.Rhs) && s.Tok == token.ASSIGN {
						a.defs[o] = s.Rhs[i]
					}
				} else if o := baseObj(l); o != nil {
					a.assign[o] += 2 // element / field assignment: never a plain copy
				}
			}
		case *ast.IncDecStmt:
			if o := baseObj(s.X); o != nil {
				a.assign[o] += 2
			}
		case *ast.RangeStmt:
			for _, e := range []ast.Expr{s.Key, s.Value} {
				if e != nil {
					if o := identObj(e); o != nil {
						a.assign[o] += 2
					}
				}
			}
		case *ast.ValueSpec:
			for i, nm := range s.Names {
				if nm.Obj != nil {
					a.assign[nm.Obj]++
					if i < len(s.Values) {
						a.defs[nm.Obj] = s.Values[i]
					}
				}
			}
		case *ast.UnaryExpr:
			if s.Op == token.AND {
				if o := baseObj(s.X); o != nil {
					a.assign[o] += 2 // address taken: could be written through the pointer
				}
			}
		}
		return true
	})
}

// a local assigned exactly once (its definition): may be replaced by its defining expression
func (a *analyser) copyOf(o *ast.Object) ast.Expr {
	if o == nil || o.Kind != ast.Var || a.assign[o] != 1 {
		return nil
	}
	return a.defs[o]
}

// ---------------------------------------------------------------- symbolic linear forms

type lin struct {
	t map[string]int
	c int
}

func (l lin) String() string {
	var ks []string
	for k, v := range l.t {
		if v != 0 {
			ks = append(ks, k)
		}
	}
	sort.Strings(ks)
	var parts []string
	for _, k := range ks {
		if l.t[k] == 1 {
			parts = append(parts, k)
		} else {
			parts = append(parts, fmt.Sprintf("%d*%s", l.t[k], k))
		}
	}
	if l.c != 0 || len(parts) == 0 {
		parts = append(parts, fmt.Sprint(l.c))
	}
	return strings.Join(parts, " + ")
}

func linConst(c int) lin { return lin{map[string]int{}, c} }
func linAdd(x, y lin, sign int) lin {
	r := lin{map[string]int{}, x.c + sign*y.c}
	for k, v := range x.t {
		r.t[k] += v
	}
	for k, v := range y.t {
		r.t[k] += sign * v
	}
	return r
}
func linEq(x, y lin) bool { return linAdd(x, y, -1).String() == "0" }

func (a *analyser) linOf(e ast.Expr, depth int) lin {
	e = unparen(e)
	switch x := e.(type) {
	case *ast.BasicLit:
		if x.Kind == token.INT {
			var v int
			if _, err := fmt.Sscan(x.Value, &v); err == nil {
				return linConst(v)
			}
		}
	case *ast.BinaryExpr:
		if x.Op == token.ADD {
			return linAdd(a.linOf(x.X, depth), a.linOf(x.Y, depth), 1)
		}
		if x.Op == token.SUB {
			return linAdd(a.linOf(x.X, depth), a.linOf(x.Y, depth), -1)
		}
	case *ast.Ident:
		if d := a.copyOf(x.Obj); d != nil && depth < 8 {
			return a.linOf(d, depth+1)
		}
		if x.Obj != nil {
			return lin{map[string]int{fmt.Sprintf("%s@%d", x.Name, x.Obj.Pos()): 1}, 0}
		}
	}
	return lin{map[string]int{a.canon(e, 0): 1}, 0}
}

// canonical text of an expression with plain-copy locals substituted
func (a *analyser) canon(e ast.Expr, depth int) string {
	e = unparen(e)
	switch x := e.(type) {
	case *ast.Ident:
		if d := a.copyOf(x.Obj); d != nil && depth < 8 {
			return a.canon(d, depth+1)
		}
		return x.Name
	case *ast.CallExpr:
		var args []string
		for _, g := range x.Args {
			args = append(args, a.canon(g, depth))
		}
		return a.canon(x.Fun, depth) + "(" + strings.Join(args, ",") + ")"
	case *ast.SelectorExpr:
		return a.canon(x.X, depth) + "." + x.Sel.Name
	case *ast.IndexExpr:
		return a.canon(x.X, depth) + "[" + a.canon(x.Index, depth) + "]"
	}
	return a.text(e)
}

// ---------------------------------------------------------------- counted loops

type counted struct {
	v      *ast.Object
	lo, hi lin // the loop variable takes every value of [lo, hi) exactly once
	ok     bool
	why    string
}

func (a *analyser) countedLoop(f *ast.ForStmt) counted {
	init, ok := f.Init.(*ast.AssignStmt)
	if !ok || len(init.Lhs) != 1 || len(init.Rhs) != 1 || init.Tok != token.DEFINE {
		return counted{why: "loop without a `v := A` initialisation"}
	}
	v := identObj(init.Lhs[0])
	if v == nil {
		return counted{why: "loop variable is not a plain identifier"}
	}
	A := a.linOf(init.Rhs[0], 0)
	cond, ok := f.Cond.(*ast.BinaryExpr)
	if !ok {
		return counted{why: "loop condition is not a single comparison (" + a.text(f.Cond) + ")"}
	}
	op := cond.Op
	var B lin
	switch {
	case identObj(cond.X) == v:
		B = a.linOf(cond.Y, 0)
	case identObj(cond.Y) == v: // B op v  ==  v op' B
		B = a.linOf(cond.X, 0)
		op = map[token.Token]token.Token{token.LSS: token.GTR, token.LEQ: token.GEQ, token.GTR: token.LSS, token.GEQ: token.LEQ}[op]
	default:
		return counted{why: "loop condition does not compare the loop variable (" + a.text(f.Cond) + ")"}
	}
	step := 0
	switch p := f.Post.(type) {
	case *ast.IncDecStmt:
		if identObj(p.X) == v {
			if p.Tok == token.INC {
				step = 1
			} else {
				step = -1
			}
		}
	case *ast.AssignStmt:
		if len(p.Lhs) == 1 && len(p.Rhs) == 1 && identObj(p.Lhs[0]) == v {
			if l := a.linOf(p.Rhs[0], 0); len(l.t) == 0 && l.c == 1 {
				if p.Tok == token.ADD_ASSIGN {
					step = 1
				} else if p.Tok == token.SUB_ASSIGN {
					step = -1
				}
			}
		}
	}
	if step == 0 {
		return counted{why: "loop step is not +1 / -1 on the loop variable"}
	}
	// the body must not assign the loop variable
	bad := false
	ast.Inspect(f.Body, func(n ast.Node) bool {
		switch s := n.(type) {
		case *ast.AssignStmt:
			for _, l := range s.Lhs {
				if baseObj(l) == v && s.Tok != token.DEFINE {
					bad = true
				}
			}
		case *ast.IncDecStmt:
			if baseObj(s.X) == v {
				bad = true
			}
		}
		return true
	})
	if bad {
		return counted{why: "the loop body modifies the loop variable"}
	}
	one := linConst(1)
	switch {
	case step == 1 && op == token.LSS:
		return counted{v: v, lo: A, hi: B, ok: true}
	case step == 1 && op == token.LEQ:
		return counted{v: v, lo: A, hi: linAdd(B, one, 1), ok: true}
	case step == -1 && op == token.GTR:
		return counted{v: v, lo: linAdd(B, one, 1), hi: linAdd(A, one, 1), ok: true}
	case step == -1 && op == token.GEQ:
		return counted{v: v, lo: B, hi: linAdd(A, one, 1), ok: true}
	}
	return counted{why: "loop direction and comparison do not match (" + a.text(f.Cond) + ")"}
}

// ---------------------------------------------------------------- path analysis of the sends

// masks over the number of sends along a path: bit0 = 0 sends, bit1 = 1, bit2 = 2 or more
func maskSum(x, y uint8) uint8 {
	var r uint8
	for i := uint(0); i < 3; i++ {
		for j := uint(0); j < 3; j++ {
			if x&(1<<i) != 0 && y&(1<<j) != 0 {
				k := i + j
				if k > 2 {
					k = 2
				}
				r |= 1 << k
			}
		}
	}
	return r
}

type sendAn struct {
	a      *analyser
	ch     *ast.Object // the completion object as the goroutine sees it (channel, or WaitGroup)
	isWG   bool        // completion event = <ch>.Done() instead of a send on <ch>
	defers uint8       // events performed by deferred literals / deferred Done (mask), 1 = none
	ok     bool
}

// <obj>.<name>(..) on the given object
func methodCallOn(e ast.Expr, obj *ast.Object, name string) bool {
	c, ok := unparen(e).(*ast.CallExpr)
	if !ok {
		return false
	}
	sel, ok := c.Fun.(*ast.SelectorExpr)
	return ok && sel.Sel.Name == name && identObj(sel.X) == obj && obj != nil
}

func (s *sendAn) exprMentionsChan(e ast.Node) bool {
	found := false
	ast.Inspect(e, func(n ast.Node) bool {
		if _, isLit := n.(*ast.FuncLit); isLit {
			return false
		}
		if id, ok := n.(*ast.Ident); ok && id.Obj == s.ch {
			found = true
		}
		return true
	})
	return found
}

// (fallthrough mask, return mask)
func (s *sendAn) list(stmts []ast.Stmt, top bool) (uint8, uint8) {
	var fall, ret uint8 = 1, 0
	for _, st := range stmts {
		if fall == 0 {
			break
		}
		f, r := s.stmt(st, top)
		ret |= maskSum(fall, r)
		fall = maskSum(fall, f)
	}
	return fall, ret
}

func (s *sendAn) stmt(st ast.Stmt, top bool) (uint8, uint8) {
	switch x := st.(type) {
	case *ast.SendStmt:
		if !s.isWG && identObj(x.Chan) == s.ch {
			return 2, 0
		}
		if s.exprMentionsChan(st) {
			s.ok = false
		}
		return 1, 0
	case *ast.ExprStmt:
		if s.isWG && methodCallOn(x.X, s.ch, "Done") {
			return 2, 0
		}
		if s.exprMentionsChan(st) {
			s.ok = false
		}
		return 1, 0
	case *ast.ReturnStmt:
		return 0, 1
	case *ast.BlockStmt:
		return s.list(x.List, false)
	case *ast.LabeledStmt:
		return s.stmt(x.Stmt, false)
	case *ast.IfStmt:
		f1, r1 := s.list(x.Body.List, false)
		var f2, r2 uint8 = 1, 0
		if x.Else != nil {
			f2, r2 = s.stmt(x.Else, false)
		}
		return f1 | f2, r1 | r2
	case *ast.ForStmt, *ast.RangeStmt:
		var body *ast.BlockStmt
		if f, ok := x.(*ast.ForStmt); ok {
			body = f.Body
		} else {
			body = x.(*ast.RangeStmt).Body
		}
		f, r := s.list(body.List, false)
		if (f|r)&^1 != 0 {
			s.ok = false // a send inside a loop: unknown number of sends
		}
		return 1, r & 1
	case *ast.SwitchStmt, *ast.TypeSwitchStmt, *ast.SelectStmt:
		var body *ast.BlockStmt
		hasDefault := false
		switch y := x.(type) {
		case *ast.SwitchStmt:
			body = y.Body
		case *ast.TypeSwitchStmt:
			body = y.Body
		case *ast.SelectStmt:
			body = y.Body
			hasDefault = true
		}
		var fall, ret uint8
		for _, cl := range body.List {
			switch c := cl.(type) {
			case *ast.CaseClause:
				if c.List == nil {
					hasDefault = true
				}
				f, r := s.list(c.Body, false)
				fall |= f
				ret |= r
			case *ast.CommClause:
				if c.Comm != nil && s.exprMentionsChan(c.Comm) {
					s.ok = false
				}
				f, r := s.list(c.Body, false)
				fall |= f
				ret |= r
			}
		}
		if !hasDefault {
			fall |= 1
		}
		return fall, ret
	case *ast.DeferStmt:
		if s.isWG && methodCallOn(x.Call, s.ch, "Done") {
			if !top {
				s.ok = false // conditional defer
			}
			s.defers = maskSum(s.defers, 2)
			return 1, 0
		}
		if lit, ok := x.Call.Fun.(*ast.FuncLit); ok {
			f, r := s.list(lit.Body.List, false)
			if (f|r) != 1 { // the deferred literal sends
				if !top {
					s.ok = false // conditional defer
				}
				s.defers = maskSum(s.defers, f|r)
			}
			return 1, 0
		}
		if s.exprMentionsChan(x.Call) {
			s.ok = false
		}
		return 1, 0
	case *ast.GoStmt:
		if s.exprMentionsChan(x.Call) {
			s.ok = false
		}
		return 1, 0
	default:
		// plain statements: the channel must not escape into a call or another variable
		if s.exprMentionsChan(st) {
			s.ok = false
		}
		return 1, 0
	}
}

// ---------------------------------------------------------------- the analysis proper

type launch struct {
	gs     *ast.GoStmt
	body   *ast.BlockStmt
	lit    *ast.FuncLit           // nil for a named function
	params []*ast.Object          // callee parameters, flattened
	args   []ast.Expr
}

func flattenParams(ft *ast.FuncType) []*ast.Object {
	var ps []*ast.Object
	for _, f := range ft.Params.List {
		if len(f.Names) == 0 {
			ps = append(ps, nil)
		}
		for _, n := range f.Names {
			ps = append(ps, n.Obj)
		}
	}
	return ps
}

func (a *analyser) resolveLaunch(gs *ast.GoStmt) *launch {
	l := &launch{gs: gs, args: gs.Call.Args}
	switch f := unparen(gs.Call.Fun).(type) {
	case *ast.FuncLit:
		l.lit, l.body, l.params = f, f.Body, flattenParams(f.Type)
		a.rep.Callee = "literal"
		return l
	case *ast.Ident:
		if d := a.copyOf(f.Obj); d != nil {
			if lit, ok := unparen(d).(*ast.FuncLit); ok {
				l.lit, l.body, l.params = lit, lit.Body, flattenParams(lit.Type)
				a.rep.Callee = "local-literal"
				return l
			}
		}
		for _, file := range a.files {
			for _, d := range file.Decls {
				if fd, ok := d.(*ast.FuncDecl); ok && fd.Recv == nil && fd.Name.Name == f.Name && fd.Body != nil {
					l.body, l.params = fd.Body, flattenParams(fd.Type)
					a.rep.Callee = "named-function"
					return l
				}
			}
		}
	}
	a.problem("`go %s`: the started function is neither a literal, a local bound once to a literal, nor a function of this package", a.text(gs.Call.Fun))
	return nil
}

func isMakeChan(e ast.Expr) bool {
	c, ok := unparen(e).(*ast.CallExpr)
	if !ok || len(c.Args) == 0 {
		return false
	}
	if id, ok := c.Fun.(*ast.Ident); !ok || id.Name != "make" || id.Obj != nil {
		return false
	}
	_, isChan := c.Args[0].(*ast.ChanType)
	return isChan
}

// channel variable of the starter that reaches the goroutine (captured, or passed as an argument)
func (a *analyser) starterChan(l *launch, o *ast.Object) *ast.Object {
	for i, p := range l.params {
		if p != nil && p == o && i < len(l.args) {
			return identObj(l.args[i])
		}
	}
	return o
}

func inBlockTop(list []ast.Stmt, target ast.Stmt) int {
	for i, s := range list {
		if s == target {
			return i
		}
	}
	return -1
}

func hasBranch(stmts []ast.Stmt) bool {
	found := false
	for _, s := range stmts {
		ast.Inspect(s, func(n ast.Node) bool {
			switch n.(type) {
			case *ast.FuncLit:
				return false
			case *ast.BranchStmt, *ast.ReturnStmt:
				found = true
			}
			return true
		})
	}
	return found
}

func analyseStructure(path, fname string, wantRecv bool) (*structReport, error) {
	fset := token.NewFileSet()
	pkgs, err := parser.ParseDir(fset, filepath.Dir(path), nil, 0)
	if err != nil {
		return nil, err
	}
	a := &analyser{fset: fset, rep: &structReport{File: path, Func: fname}}
	var target *ast.File
	for _, p := range pkgs {
		for fn, f := range p.Files {
			if filepath.Base(fn) == filepath.Base(path) {
				target = f
				for _, g := range p.Files {
					a.files = append(a.files, g)
				}
			}
		}
	}
	if target == nil {
		return nil, fmt.Errorf("%s not parsed", path)
	}
	for _, d := range target.Decls {
		if fd, ok := d.(*ast.FuncDecl); ok && fd.Name.Name == fname && (fd.Recv != nil) == wantRecv && fd.Body != nil {
			a.fd = fd
		}
	}
	rep := a.rep
	if a.fd == nil {
		a.problem("function %s not found", fname)
		return rep, nil
	}
	rep.Model = fname
	if a.fd.Recv != nil {
		if st, ok := a.fd.Recv.List[0].Type.(*ast.StarExpr); ok {
			if id, ok := st.X.(*ast.Ident); ok {
				rep.Model = id.Name
			}
		}
	}
	a.collectAssignments()

	// --- the go statements and the loop each one sits in (must be the top level of a loop body
	// that is itself a top-level statement of the function)
	type site struct {
		l      *launch
		loop   ast.Stmt
		lbody  *ast.BlockStmt
		idx    int
	}
	var sites []site
	var gos []*ast.GoStmt
	ast.Inspect(a.fd.Body, func(n ast.Node) bool {
		if g, ok := n.(*ast.GoStmt); ok {
			gos = append(gos, g)
		}
		return true
	})
	rep.GoStmts = len(gos)
	if len(gos) != 1 {
		a.problem("%d go statements (one launch site expected)", len(gos))
	}
	for _, g := range gos {
		l := a.resolveLaunch(g)
		if l == nil {
			continue
		}
		found := false
		for _, st := range a.fd.Body.List {
			var body *ast.BlockStmt
			switch lp := st.(type) {
			case *ast.ForStmt:
				body = lp.Body
			case *ast.RangeStmt:
				body = lp.Body
			}
			if body == nil {
				continue
			}
			if k := inBlockTop(body.List, g); k >= 0 {
				sites = append(sites, site{l, st, body, k})
				found = true
			}
		}
		if !found {
			a.problem("the go statement is not an unconditional top-level statement of a top-level loop of %s (conditional, nested or chunked launch)", fname)
		}
	}
	if len(sites) != 1 || len(rep.Problems) > 0 {
		return rep, nil
	}
	s := sites[0]

	type recvSite struct {
		loop *ast.ForStmt
	}
	var ch *ast.Object
	var join *ast.ForStmt
	var jc counted
	var receives lin
	wg := a.waitGroupJoin(s.l, s.loop, s.lbody, s.idx)
	if wg != nil {
		// --- completion by sync.WaitGroup (second recognised mechanism)
		ch = wg.obj
		rep.Channel = wg.obj.Name
		rep.Join = "waitgroup:" + wg.form
		if len(rep.Problems) > 0 {
			return rep, nil
		}
	} else {
		rep.Join = "channel"
		// --- the completion channel: channel objects the goroutine sends on
		sendChans := map[*ast.Object]bool{}
		ast.Inspect(s.l.body, func(n ast.Node) bool {
			if _, isLit := n.(*ast.FuncLit); isLit && n != ast.Node(s.l.lit) {
				// sends inside nested literals are seen through the defer rule only
			}
			if sd, ok := n.(*ast.SendStmt); ok {
				if o := identObj(sd.Chan); o != nil {
					sendChans[o] = true
				} else {
					a.problem("send on a channel expression that is not a plain variable (%s)", a.text(sd.Chan))
				}
			}
			return true
		})
		if len(sendChans) != 1 {
			a.problem("the goroutine sends on %d channels (exactly one completion channel expected)", len(sendChans))
			return rep, nil
		}
		var chIn *ast.Object
		for o := range sendChans {
			chIn = o
		}
		ch = a.starterChan(s.l, chIn)
		if ch == nil {
			a.problem("the completion channel of the goroutine is not bound to a variable of the starter")
			return rep, nil
		}
		rep.Channel = ch.Name
		if d, ok := a.defs[ch]; !ok || !isMakeChan(d) || a.assign[ch] != 1 {
			a.problem("the completion channel is not a local made once with make(chan ..) in %s", fname)
		}
		sa := &sendAn{a: a, ch: chIn, defers: 1, ok: true}
		fall, ret := sa.list(s.l.body.List, true)
		exits := maskSum(fall|ret, sa.defers)
		if !sa.ok || exits != 2 {
			a.problem("the goroutine does not send on the completion channel exactly once on every path (sends per path: %s%s)",
				map[uint8]string{1: "0", 2: "1", 3: "0 or 1", 4: ">=2", 5: "0 or >=2", 6: "1 or >=2", 7: "0, 1 or >=2"}[exits],
				map[bool]string{true: "", false: "; channel used in a loop, a select, a call or a conditional defer"}[sa.ok])
		}

		// --- receives of the starter on that channel: exactly one, unconditional, in a top-level counted loop
		var recvs []recvSite
		nRecvExprs := 0
		ast.Inspect(a.fd.Body, func(n ast.Node) bool {
			if _, isLit := n.(*ast.FuncLit); isLit {
				return false
			}
			if u, ok := n.(*ast.UnaryExpr); ok && u.Op == token.ARROW && identObj(u.X) == ch {
				nRecvExprs++
			}
			if r, ok := n.(*ast.RangeStmt); ok && identObj(r.X) == ch {
				nRecvExprs += 2
			}
			return true
		})
		isRecvStmt := func(st ast.Stmt) bool {
			var e ast.Expr
			switch x := st.(type) {
			case *ast.ExprStmt:
				e = x.X
			case *ast.AssignStmt:
				if len(x.Rhs) == 1 {
					e = x.Rhs[0]
				}
			}
			if e == nil {
				return false
			}
			u, ok := unparen(e).(*ast.UnaryExpr)
			return ok && u.Op == token.ARROW && identObj(u.X) == ch
		}
		for _, st := range a.fd.Body.List {
			if f, ok := st.(*ast.ForStmt); ok && st != s.loop {
				k := 0
				for _, b := range f.Body.List {
					if isRecvStmt(b) {
						k++
					}
				}
				if k == 1 {
					recvs = append(recvs, recvSite{f})
				}
			}
		}
		if nRecvExprs != 1 || len(recvs) != 1 {
			a.problem("the starter does not receive from the completion channel in exactly one place, once per iteration of one top-level join loop (%d receive expressions, %d such loops)", nRecvExprs, len(recvs))
			return rep, nil
		}
		join = recvs[0].loop
		if hasBranch(join.Body.List) {
			a.problem("the join loop contains break / continue / return / goto")
		}
		jc = a.countedLoop(join)
		if !jc.ok {
			a.problem("join loop: %s", jc.why)
			return rep, nil
		}
		receives = linAdd(jc.hi, jc.lo, -1)
		rep.Receives = receives.String()

	}

	// --- launches
	before, after := s.lbody.List[:s.idx], s.lbody.List[s.idx+1:]
	if hasBranch(before) || hasBranch(after) {
		// a `continue` guard before the launch is fine in the counter form only
	}
	var launches lin
	switch lp := s.loop.(type) {
	case *ast.ForStmt:
		lc := a.countedLoop(lp)
		if !lc.ok {
			a.problem("launch loop: %s", lc.why)
			return rep, nil
		}
		if hasBranch(s.lbody.List) {
			a.problem("the launch loop contains break / continue / return / goto (not every index is started)")
		}
		launches = linAdd(lc.hi, lc.lo, -1)
		rep.LaunchForm = "counted"
		if wg != nil {
			if wg.form == "add-per-launch" {
				receives = launches // one Add(1) right before every go statement
			} else {
				receives = wg.total
			}
			rep.Receives = receives.String()
		}
		// the loop variable must reach the goroutine by value, exactly once, and the indices are [0, count)
		byValue := 0
		for _, g := range s.l.args {
			o := identObj(g)
			if o == lc.v {
				byValue++
			} else if d := a.copyOf(o); d != nil && identObj(d) == lc.v {
				byValue++
			}
		}
		captured := false
		if s.l.lit != nil {
			ast.Inspect(s.l.lit.Body, func(n ast.Node) bool {
				if id, ok := n.(*ast.Ident); ok && id.Obj == lc.v {
					captured = true
				}
				return true
			})
		}
		if captured {
			a.problem("the goroutine captures the launch-loop variable instead of receiving it by value")
		}
		if wantRecv {
			if byValue != 1 {
				a.problem("the launch-loop variable is passed to the goroutine %d times (exactly one by-value index parameter expected)", byValue)
			}
			if !linEq(lc.lo, linConst(0)) {
				a.problem("the launch loop does not start at index 0 (indices [%s, %s))", lc.lo, lc.hi)
			}
		}
	case *ast.RangeStmt:
		rep.LaunchForm = "counter"
		// the range variables must reach the goroutine by value
		if s.l.lit != nil {
			for _, e := range []ast.Expr{lp.Key, lp.Value} {
				if o := identObj(e); o != nil {
					ast.Inspect(s.l.lit.Body, func(n ast.Node) bool {
						if id, ok := n.(*ast.Ident); ok && id.Obj == o {
							a.problem("the goroutine captures the range variable %s instead of receiving it by value", o.Name)
							return false
						}
						return true
					})
				}
			}
		}
		if wg != nil {
			if wg.form != "add-per-launch" {
				a.problem("launches inside a range loop need one Add(1) next to every go statement")
				return rep, nil
			}
			launches = lin{map[string]int{"one Add(1) per launched goroutine": 1}, 0}
			receives = launches
			rep.Receives = receives.String()
			break
		}
		// counter: the join count is a local incremented exactly once, next to the launch
		var counter *ast.Object
		ast.Inspect(join.Cond, func(n ast.Node) bool {
			if id, ok := n.(*ast.Ident); ok && id.Obj != nil && id.Obj != jc.v && a.assign[id.Obj] == 3 {
				counter = id.Obj
			}
			return true
		})
		okCounter := false
		if counter != nil {
			if d, ok := a.defs[counter]; ok {
				if l0 := a.linOf(d, 0); len(l0.t) == 0 && l0.c == 0 {
					// exactly one ++ (assign weight 2) in the same statement list as the go statement,
					// with no branch statement between the two
					for k, st := range s.lbody.List {
						if inc, ok := st.(*ast.IncDecStmt); ok && inc.Tok == token.INC && identObj(inc.X) == counter {
							lo, hi := k, s.idx
							if lo > hi {
								lo, hi = hi, lo
							}
							if !hasBranch(s.lbody.List[lo : hi+1]) {
								okCounter = true
							}
						}
					}
				}
			}
		}
		if !okCounter {
			a.problem("launches inside a range loop are not counted by a counter that is zero-initialised, incremented exactly once next to the go statement and used as the join count")
			return rep, nil
		}
		launches = lin{map[string]int{fmt.Sprintf("%s@%d", counter.Name, counter.Pos()): 1}, 0}
		// the join loop must run 0 .. counter
		receives = linAdd(jc.hi, jc.lo, -1)
		cl := lin{map[string]int{}, 0}
		_ = cl
		// linOf does not substitute the counter (3 assignments): the forms are directly comparable
	}
	rep.Launches = launches.String()
	if !linEq(launches, receives) {
		a.problem("launches (%s) and receives (%s) differ", launches, receives)
	}
	if wantRecv {
		// the number of cells: <ND2 parameter>.Len(sim.DIMS_CELL)
		okCells := false
		for _, f := range a.fd.Type.Params.List {
			if a.text(f.Type) == "data.ND2Float64" {
				for _, nm := range f.Names {
					for _, c := range []string{nm.Name + ".Len(sim.DIMS_CELL)", nm.Name + ".Len(0)"} {
						if linEq(launches, lin{map[string]int{c: 1}, 0}) {
							okCells = true
						}
					}
				}
			}
		}
		if !okCells {
			a.problem("the number of goroutines started (%s) is not the number of cells <states>.Len(sim.DIMS_CELL)", launches)
		}
	}

	// --- captured variables (literal only): classified by use
	if s.l.lit != nil {
		inside := map[*ast.Object]bool{}
		for _, p := range s.l.params {
			if p != nil {
				inside[p] = true
			}
		}
		ast.Inspect(s.l.lit.Body, func(n ast.Node) bool {
			switch x := n.(type) {
			case *ast.AssignStmt:
				if x.Tok == token.DEFINE {
					for _, l := range x.Lhs {
						if o := identObj(l); o != nil {
							inside[o] = true
						}
					}
				}
			case *ast.ValueSpec:
				for _, nm := range x.Names {
					inside[nm.Obj] = true
				}
			case *ast.RangeStmt:
				for _, e := range []ast.Expr{x.Key, x.Value} {
					if o := identObj(e); o != nil && x.Tok == token.DEFINE {
						inside[o] = true
					}
				}
			case *ast.FuncLit:
				for _, p := range flattenParams(x.Type) {
					if p != nil {
						inside[p] = true
					}
				}
			}
			return true
		})
		captured := map[*ast.Object]bool{}
		written := map[*ast.Object]bool{}
		ast.Inspect(s.l.lit.Body, func(n ast.Node) bool {
			switch x := n.(type) {
			case *ast.Ident:
				if x.Obj != nil && x.Obj.Kind == ast.Var && !inside[x.Obj] {
					captured[x.Obj] = true
				}
			case *ast.AssignStmt:
				if x.Tok != token.DEFINE {
					for _, l := range x.Lhs {
						if o := baseObj(l); o != nil && !inside[o] && o.Kind == ast.Var {
							written[o] = true
						}
					}
				}
			case *ast.IncDecStmt:
				if o := baseObj(x.X); o != nil && !inside[o] && o.Kind == ast.Var {
					written[o] = true
				}
			case *ast.UnaryExpr:
				if x.Op == token.AND {
					if o := baseObj(x.X); o != nil && !inside[o] && o.Kind == ast.Var {
						written[o] = true // address of shared state taken inside the goroutine
					}
				}
			}
			return true
		})
		// the starter must not write captured variables while goroutines are running
		blks := []*ast.BlockStmt{s.lbody}
		if join != nil {
			blks = append(blks, join.Body)
		}
		for _, blk := range blks {
			for _, st := range blk.List {
				if st == ast.Stmt(s.l.gs) {
					continue
				}
				ast.Inspect(st, func(n ast.Node) bool {
					switch x := n.(type) {
					case *ast.FuncLit:
						return false
					case *ast.AssignStmt:
						if x.Tok != token.DEFINE {
							for _, l := range x.Lhs {
								if o := baseObj(l); o != nil && captured[o] {
									written[o] = true
								}
							}
						}
					case *ast.IncDecStmt:
						if o := baseObj(x.X); o != nil && captured[o] {
							written[o] = true
						}
					}
					return true
				})
			}
		}
		// OBSERVATION-ONLY shared state (e.g. the completion order kept for a log line) is not a result
		joinIdx := -1
		for k, st := range a.fd.Body.List {
			if join != nil && st == ast.Stmt(join) {
				joinIdx = k
			}
			if es, ok := st.(*ast.ExprStmt); ok && wg != nil && methodCallOn(es.X, wg.obj, "Wait") {
				joinIdx = k
			}
		}
		for o := range written {
			if captured[o] && a.observationOnly(o, s.l.lit, joinIdx) {
				delete(written, o)
				rep.ObservationOnly = append(rep.ObservationOnly, o.Name)
			}
		}
		sort.Strings(rep.ObservationOnly)
		for o := range captured {
			switch {
			case written[o]:
				rep.WrittenCaptured = append(rep.WrittenCaptured, o.Name)
			case o == ch:
				rep.ChanCaptured = append(rep.ChanCaptured, o.Name)
			default:
				isObs := false
				for _, n := range rep.ObservationOnly {
					if n == o.Name {
						isObs = true
					}
				}
				if !isObs {
					rep.ReadCaptured = append(rep.ReadCaptured, o.Name)
				}
			}
		}
		for o := range written {
			if !captured[o] {
				rep.WrittenCaptured = append(rep.WrittenCaptured, o.Name)
			}
		}
		sort.Strings(rep.WrittenCaptured)
		sort.Strings(rep.ReadCaptured)
		if len(rep.WrittenCaptured) > 0 {
			a.problem("state shared between the goroutines is written while they run: %v", rep.WrittenCaptured)
		}
	}
	rep.Recognised = len(rep.Problems) == 0
	return rep, nil
}


// ---------------------------------------------------------------- completion by sync.WaitGroup

type wgJoin struct {
	obj   *ast.Object // the WaitGroup local of the starter
	form  string      // add-per-launch | add-total
	total lin         // argument of the single Add(n) (add-total)
}

func (a *analyser) isWGTypeExpr(e ast.Expr) bool {
	if e == nil {
		return false
	}
	t := a.text(e)
	return t == "sync.WaitGroup" || t == "*sync.WaitGroup"
}

// is o a local sync.WaitGroup (value or pointer) declared in the analysed function?
func (a *analyser) isWGLocal(o *ast.Object) bool {
	if o == nil || o.Kind != ast.Var {
		return false
	}
	if vs, ok := o.Decl.(*ast.ValueSpec); ok && a.isWGTypeExpr(vs.Type) {
		return true
	}
	if d, ok := a.defs[o]; ok && a.assign[o] <= 3 {
		t := a.text(d)
		return t == "sync.WaitGroup{}" || t == "&sync.WaitGroup{}" || t == "new(sync.WaitGroup)"
	}
	return false
}

// waitGroupJoin recognises the WaitGroup form of the join; nil when the started goroutine does not
// call Done() on a WaitGroup at all (then the channel form is tried).  Problems are reported.
func (a *analyser) waitGroupJoin(l *launch, loop ast.Stmt, lbody *ast.BlockStmt, goIdx int) *wgJoin {
	// objects the goroutine calls .Done() on
	doneOn := map[*ast.Object]bool{}
	ast.Inspect(l.body, func(n ast.Node) bool {
		if c, ok := n.(*ast.CallExpr); ok {
			if sel, ok := c.Fun.(*ast.SelectorExpr); ok && sel.Sel.Name == "Done" && len(c.Args) == 0 {
				if o := identObj(sel.X); o != nil {
					doneOn[o] = true
				}
			}
		}
		return true
	})
	var inner, outer *ast.Object
	for o := range doneOn {
		cand := o
		// a parameter of the started function bound to &wg / wg
		for i, p := range l.params {
			if p != nil && p == o && i < len(l.args) {
				arg := unparen(l.args[i])
				if u, ok := arg.(*ast.UnaryExpr); ok && u.Op == token.AND {
					arg = unparen(u.X)
				}
				cand = identObj(arg)
			}
		}
		if a.isWGLocal(cand) {
			if outer != nil {
				a.problem("the goroutine calls Done() on more than one WaitGroup")
				return &wgJoin{obj: cand}
			}
			inner, outer = o, cand
		}
	}
	if outer == nil {
		return nil
	}
	w := &wgJoin{obj: outer}
	// --- the WaitGroup must not escape: only Add / Done / Wait are called on it; &wg / wg may be an
	// argument of the go call (the started function then only calls Done on its parameter)
	goArgs := map[ast.Expr]bool{}
	for _, g := range l.gs.Call.Args {
		goArgs[g] = true
	}
	var adds []*ast.CallExpr
	waits, escapes := 0, 0
	var visit func(n ast.Node, parent ast.Node, grand ast.Node)
	visit = func(n ast.Node, parent ast.Node, grand ast.Node) {}
	var stack []ast.Node
	ast.Inspect(a.fd.Body, func(n ast.Node) bool {
		if n == nil {
			stack = stack[:len(stack)-1]
			return true
		}
		if id, ok := n.(*ast.Ident); ok && id.Obj == outer && len(stack) > 0 {
			parent := stack[len(stack)-1]
			okUse := false
			if sel, ok := parent.(*ast.SelectorExpr); ok && sel.X == ast.Expr(id) && len(stack) > 1 {
				if call, ok := stack[len(stack)-2].(*ast.CallExpr); ok && call.Fun == ast.Expr(sel) {
					switch sel.Sel.Name {
					case "Add":
						adds = append(adds, call)
						okUse = true
					case "Wait":
						waits++
						okUse = true
					case "Done":
						okUse = true
					}
				}
			}
			if u, ok := parent.(*ast.UnaryExpr); ok && u.Op == token.AND && goArgs[ast.Expr(u)] {
				okUse = true
			}
			if goArgs[ast.Expr(id)] {
				okUse = true
			}
			if _, isDecl := parent.(*ast.ValueSpec); isDecl {
				okUse = true
			}
			if as, isAs := parent.(*ast.AssignStmt); isAs && as.Tok == token.DEFINE {
				okUse = true
			}
			if !okUse {
				escapes++
			}
		}
		stack = append(stack, n)
		return true
	})
	_ = visit
	if escapes > 0 {
		a.problem("the WaitGroup escapes (it is used other than by Add / Done / Wait calls or as the &wg argument of the go call)")
	}
	// inside a named started function the parameter may only be used for Done()
	if l.lit == nil && inner != nil {
		bad := 0
		var st2 []ast.Node
		ast.Inspect(l.body, func(n ast.Node) bool {
			if n == nil {
				st2 = st2[:len(st2)-1]
				return true
			}
			if id, ok := n.(*ast.Ident); ok && id.Obj == inner {
				okUse := false
				if len(st2) > 1 {
					if sel, ok := st2[len(st2)-1].(*ast.SelectorExpr); ok && sel.Sel.Name == "Done" {
						if call, ok := st2[len(st2)-2].(*ast.CallExpr); ok && call.Fun == ast.Expr(sel) {
							okUse = true
						}
					}
				}
				if !okUse {
					bad++
				}
			}
			st2 = append(st2, n)
			return true
		})
		if bad > 0 {
			a.problem("the started function uses its WaitGroup parameter for more than Done()")
		}
	}
	// --- Done() exactly once on every path of the goroutine
	sa := &sendAn{a: a, ch: inner, isWG: true, defers: 1, ok: true}
	fall, ret := sa.list(l.body.List, true)
	exits := maskSum(fall|ret, sa.defers)
	if !sa.ok || exits != 2 {
		a.problem("the goroutine does not call Done() on the WaitGroup exactly once on every path (calls per path: %s%s)",
			map[uint8]string{1: "0", 2: "1", 3: "0 or 1", 4: ">=2", 5: "0 or >=2", 6: "1 or >=2", 7: "0, 1 or >=2"}[exits],
			map[bool]string{true: "", false: "; WaitGroup used in a loop, a nested call or a conditional defer"}[sa.ok])
	}
	// --- Add: one Add(1) before every go statement (same loop body, no branch between), or one Add(n) before the loop
	top := a.fd.Body.List
	loopIdx := inBlockTop(top, loop)
	isAddStmt := func(st ast.Stmt) *ast.CallExpr {
		if es, ok := st.(*ast.ExprStmt); ok && methodCallOn(es.X, outer, "Add") {
			return unparen(es.X).(*ast.CallExpr)
		}
		return nil
	}
	if len(adds) != 1 || len(adds[0].Args) != 1 {
		a.problem("%d Add calls on the WaitGroup (exactly one Add site expected: Add(1) before every go statement, or one Add(n) before the launch loop)", len(adds))
	} else {
		found := false
		for k, st := range lbody.List {
			if c := isAddStmt(st); c == adds[0] {
				found = true
				if k > goIdx {
					a.problem("Add is executed AFTER the go statement it accounts for (Wait may return before the goroutine is counted)")
				} else if hasBranch(lbody.List[k:goIdx+1]) {
					a.problem("a branch statement between Add(1) and the go statement")
				}
				if lv := a.linOf(c.Args[0], 0); len(lv.t) != 0 || lv.c != 1 {
					a.problem("Add(%s) inside the launch loop is not Add(1)", a.text(c.Args[0]))
				}
				w.form = "add-per-launch"
			}
		}
		for k, st := range top {
			if c := isAddStmt(st); c == adds[0] {
				found = true
				if k > loopIdx {
					a.problem("Add(n) is executed after the launch loop")
				}
				w.form = "add-total"
				w.total = a.linOf(c.Args[0], 0)
			}
		}
		if !found {
			a.problem("the Add call is neither a top-level statement of the launch loop body nor a top-level statement before the loop (conditional / nested / inside the goroutine)")
		}
	}
	// --- Wait: exactly one, a top-level statement after the launch loop, reached on every path
	if waits != 1 {
		a.problem("%d Wait calls on the WaitGroup (exactly one expected, after the launch loop)", waits)
	} else {
		wIdx := -1
		for k, st := range top {
			if es, ok := st.(*ast.ExprStmt); ok && methodCallOn(es.X, outer, "Wait") {
				wIdx = k
			}
		}
		switch {
		case wIdx < 0:
			a.problem("Wait() is not a top-level statement of the function (inside the launch loop, a branch or a goroutine)")
		case wIdx < loopIdx:
			a.problem("Wait() is executed before the launch loop")
		default:
			if hasBranch(top[loopIdx+1 : wIdx]) {
				a.problem("a return / branch between the launch loop and Wait(): Wait is not reached on every path")
			}
		}
	}
	return w
}


// ---------------------------------------------------------------- observation-only shared state

// a call that only prints: fmt.Print* / fmt.Fprint*(os.Stdout|os.Stderr, ..) / log.Print*, or a function of
// this package whose body consists only of such calls (possibly under `if`)
func (a *analyser) isPrintCall(c *ast.CallExpr, depth int) bool {
	switch f := unparen(c.Fun).(type) {
	case *ast.SelectorExpr:
		pk, ok := f.X.(*ast.Ident)
		if !ok || pk.Obj != nil {
			return false
		}
		n := f.Sel.Name
		if pk.Name == "fmt" && (n == "Print" || n == "Printf" || n == "Println") {
			return true
		}
		if pk.Name == "log" && (n == "Print" || n == "Printf" || n == "Println") {
			return true
		}
		if pk.Name == "fmt" && (n == "Fprint" || n == "Fprintf" || n == "Fprintln") && len(c.Args) > 0 {
			t := a.text(c.Args[0])
			return t == "os.Stdout" || t == "os.Stderr"
		}
	case *ast.Ident:
		if f.Obj != nil && f.Obj.Kind != ast.Fun {
			return false
		}
		if depth > 2 {
			return false
		}
		for _, file := range a.files {
			for _, d := range file.Decls {
				if fd, ok := d.(*ast.FuncDecl); ok && fd.Recv == nil && fd.Name.Name == f.Name && fd.Body != nil {
					if fd.Type.Results != nil && len(fd.Type.Results.List) > 0 {
						return false
					}
					return a.onlyPrints(fd.Body.List, depth+1)
				}
			}
		}
	}
	return false
}

func (a *analyser) onlyPrints(stmts []ast.Stmt, depth int) bool {
	for _, st := range stmts {
		switch x := st.(type) {
		case *ast.ExprStmt:
			c, ok := unparen(x.X).(*ast.CallExpr)
			if !ok || !a.isPrintCall(c, depth) {
				return false
			}
		case *ast.IfStmt:
			if x.Init != nil || !a.onlyPrints(x.Body.List, depth) {
				return false
			}
			if x.Else != nil {
				eb, ok := x.Else.(*ast.BlockStmt)
				if !ok || !a.onlyPrints(eb.List, depth) {
					return false
				}
			}
		default:
			return false
		}
	}
	return true
}

// local sync.Mutex that does not escape: only Lock() / Unlock() are called on it
func (a *analyser) isLocalMutex(o *ast.Object) bool {
	if o == nil || o.Kind != ast.Var {
		return false
	}
	isM := false
	if vs, ok := o.Decl.(*ast.ValueSpec); ok && vs.Type != nil && a.text(vs.Type) == "sync.Mutex" {
		isM = true
	}
	if d, ok := a.defs[o]; ok && a.text(d) == "sync.Mutex{}" {
		isM = true
	}
	if !isM {
		return false
	}
	escapes := false
	var stack []ast.Node
	ast.Inspect(a.fd.Body, func(n ast.Node) bool {
		if n == nil {
			stack = stack[:len(stack)-1]
			return true
		}
		if id, ok := n.(*ast.Ident); ok && id.Obj == o && len(stack) > 1 {
			okUse := false
			if sel, ok := stack[len(stack)-1].(*ast.SelectorExpr); ok && sel.X == ast.Expr(id) && (sel.Sel.Name == "Lock" || sel.Sel.Name == "Unlock") {
				if call, ok := stack[len(stack)-2].(*ast.CallExpr); ok && call.Fun == ast.Expr(sel) {
					okUse = true
				}
			}
			if _, isDecl := stack[len(stack)-1].(*ast.ValueSpec); isDecl {
				okUse = true
			}
			if as, isAs := stack[len(stack)-1].(*ast.AssignStmt); isAs && as.Tok == token.DEFINE {
				okUse = true
			}
			if !okUse {
				escapes = true
			}
		}
		stack = append(stack, n)
		return true
	})
	return !escapes
}

// observationOnly: o is shared state that only OBSERVES the execution (see the header of tools/c05.py):
// every access inside the goroutine lies in a critical section of one local non-escaping mutex and is an
// append / element assignment / len(); outside it is read only after the join, only to be printed.
func (a *analyser) observationOnly(o *ast.Object, lit *ast.FuncLit, joinIdx int) bool {
	if lit == nil || joinIdx < 0 {
		return false
	}
	// --- critical statements of the literal, per mutex
	crit := map[ast.Stmt]*ast.Object{}
	lockCall := func(st ast.Stmt, name string) *ast.Object {
		es, ok := st.(*ast.ExprStmt)
		if !ok {
			return nil
		}
		c, ok := unparen(es.X).(*ast.CallExpr)
		if !ok {
			return nil
		}
		sel, ok := c.Fun.(*ast.SelectorExpr)
		if !ok || sel.Sel.Name != name {
			return nil
		}
		m := identObj(sel.X)
		if a.isLocalMutex(m) {
			return m
		}
		return nil
	}
	var scan func(list []ast.Stmt, isFuncBody bool)
	scan = func(list []ast.Stmt, isFuncBody bool) {
		for k, st := range list {
			if m := lockCall(st, "Lock"); m != nil {
				// Lock(); defer Unlock() at the top of a function body: the rest of the body is critical
				if isFuncBody && k == 0 && len(list) > 1 {
					if d, ok := list[1].(*ast.DeferStmt); ok && methodCallOn(d.Call, m, "Unlock") {
						for _, r := range list[2:] {
							crit[r] = m
						}
					}
				}
				for j := k + 1; j < len(list); j++ {
					if lockCall(list[j], "Unlock") == m {
						if !hasBranch(list[k+1 : j]) {
							for _, r := range list[k+1 : j] {
								crit[r] = m
							}
						}
						break
					}
				}
			}
		}
		for _, st := range list {
			ast.Inspect(st, func(n ast.Node) bool {
				switch b := n.(type) {
				case *ast.FuncLit:
					scan(b.Body.List, true)
					return false
				case *ast.BlockStmt:
					scan(b.List, false)
					return false
				}
				return true
			})
		}
	}
	scan(lit.Body.List, true)
	// --- every occurrence inside the literal: critical (one mutex) and an allowed use
	var theMutex *ast.Object
	ok := true
	var stack []ast.Node
	ast.Inspect(lit.Body, func(n ast.Node) bool {
		if n == nil {
			stack = stack[:len(stack)-1]
			return true
		}
		if id, isId := n.(*ast.Ident); isId && id.Obj == o {
			var m *ast.Object
			for _, anc := range stack {
				if st, isSt := anc.(ast.Stmt); isSt {
					if mm, in := crit[st]; in {
						m = mm
					}
				}
				if fl, isFl := anc.(*ast.FuncLit); isFl && fl != lit {
					ok = false // captured by another closure
				}
			}
			if m == nil || (theMutex != nil && m != theMutex) {
				ok = false
			}
			theMutex = m
			// allowed: o = append(o, ..) | o[i] = .. | len(o)
			parent := stack[len(stack)-1]
			allowed := false
			switch p := parent.(type) {
			case *ast.AssignStmt:
				// o on the left of  o = append(o, ...)
				if len(p.Lhs) == 1 && len(p.Rhs) == 1 && p.Lhs[0] == ast.Expr(id) && p.Tok == token.ASSIGN {
					if c, isC := unparen(p.Rhs[0]).(*ast.CallExpr); isC {
						if f, isF := c.Fun.(*ast.Ident); isF && f.Name == "append" && f.Obj == nil && len(c.Args) > 0 && identObj(c.Args[0]) == o {
							allowed = true
						}
					}
				}
			case *ast.CallExpr:
				if f, isF := p.Fun.(*ast.Ident); isF && f.Obj == nil {
					if f.Name == "len" && len(p.Args) == 1 && p.Args[0] == ast.Expr(id) {
						allowed = true
					}
					if f.Name == "append" && len(p.Args) > 0 && p.Args[0] == ast.Expr(id) && len(stack) > 1 {
						if as, isAs := stack[len(stack)-2].(*ast.AssignStmt); isAs && len(as.Lhs) == 1 && identObj(as.Lhs[0]) == o && as.Tok == token.ASSIGN {
							allowed = true
						}
					}
				}
			case *ast.IndexExpr:
				if p.X == ast.Expr(id) && len(stack) > 1 {
					if as, isAs := stack[len(stack)-2].(*ast.AssignStmt); isAs && as.Tok == token.ASSIGN {
						for _, l := range as.Lhs {
							if l == ast.Expr(p) {
								allowed = true
							}
						}
					}
				}
			}
			if !allowed {
				ok = false
			}
		}
		stack = append(stack, n)
		return true
	})
	if !ok || theMutex == nil {
		return false
	}
	// --- the starter: the declaration, and after the join only printing
	top := a.fd.Body.List
	for k, st := range top {
		mentions := false
		ast.Inspect(st, func(n ast.Node) bool {
			if n == ast.Node(lit) {
				return false
			}
			if id, isId := n.(*ast.Ident); isId && id.Obj == o {
				mentions = true
			}
			return true
		})
		if !mentions {
			continue
		}
		if k < joinIdx {
			// only the declaration (o := make(..) / var o ..) may mention it before the join
			isDecl := false
			switch d := st.(type) {
			case *ast.AssignStmt:
				isDecl = d.Tok == token.DEFINE && len(d.Lhs) == 1 && identObj(d.Lhs[0]) == o
				if isDecl {
					for _, r := range d.Rhs {
						ast.Inspect(r, func(n ast.Node) bool {
							if id, isId := n.(*ast.Ident); isId && id.Obj == o {
								isDecl = false
							}
							return true
						})
					}
				}
			case *ast.DeclStmt:
				isDecl = true
			}
			// the launch loop itself mentions it only inside the literal (excluded above)
			if !isDecl {
				return false
			}
			continue
		}
		if k == joinIdx {
			return false
		}
		// after the join: a print call, or `for .. range o { print calls }`
		switch x := st.(type) {
		case *ast.ExprStmt:
			c, isC := unparen(x.X).(*ast.CallExpr)
			if !isC || !a.isPrintCall(c, 0) {
				return false
			}
			// inside the print call: o itself or len(o) as a direct argument, nothing else
			for _, g := range c.Args {
				g = unparen(g)
				if identObj(g) == o {
					continue
				}
				if lc, isL := g.(*ast.CallExpr); isL {
					if f, isF := lc.Fun.(*ast.Ident); isF && f.Name == "len" && f.Obj == nil && len(lc.Args) == 1 && identObj(lc.Args[0]) == o {
						continue
					}
				}
				bad := false
				ast.Inspect(g, func(n ast.Node) bool {
					if id, isId := n.(*ast.Ident); isId && id.Obj == o {
						bad = true
					}
					return true
				})
				if bad {
					return false
				}
			}
		case *ast.RangeStmt:
			if identObj(x.X) != o || !a.onlyPrints(x.Body.List, 0) {
				return false
			}
			// the body must not mention o itself (only the range variables)
			bad := false
			ast.Inspect(x.Body, func(n ast.Node) bool {
				if id, isId := n.(*ast.Ident); isId && id.Obj == o {
					bad = true
				}
				return true
			})
			if bad {
				return false
			}
		default:
			return false
		}
	}
	return true
}
