// cellrun: correspondence harness for properties C04 / C05 (generated vectorised
// wrappers).  For one case it runs, on the real code through sim.Catalog,
//   (A) the vectorised Run on plain arrays (Go- or C-backed),
//   (B) N single-cell runs on the extracted parameter column / state row /
//       input block (with the same max-dimensions, and re-packed to the cell's
//       own dimensions), compared bit-for-bit with (A),
//   (C) the vectorised Run on RECORDING arrays, yielding per-goroutine read and
//       write sets (absolute flat offsets),
// checks canaries in the padding of the output / state arrays and that inputs
// and parameters are bit-identical afterwards, and prints one JSON line.
//
//   cellrun -specs /repo/models      print coq/Gen/WrapperSpecs.v
//   cellrun -capture /repo/models    closure-capture analysis of the generated Run methods (JSON)
//   cellrun                          read case lines from stdin:
//        RUN <Model> N nSets nIn T padN padK padT padS seed backend(go|c) warm(0|1) record(0|1)
//        INIT <Model> n nSets seed hetero(0|1)
//        DESC                        catalogue dump
package main

import (
	"bufio"
	"crypto/sha256"
	"encoding/binary"
	"encoding/json"
	"fmt"
	"math"
	"math/rand"
	"os"
	"path/filepath"
	"sort"
	"strconv"
	"strings"

	"github.com/flowmatters/openwater-core/data"
	_ "github.com/flowmatters/openwater-core/models"
	"github.com/flowmatters/openwater-core/sim"
)

func hex(f float64) string { return fmt.Sprintf("%016x", math.Float64bits(f)) }

const canaryBase = 7.0e300

func canary(k int) float64 { return canaryBase + float64(k)*1e285 }

type layout struct {
	Model                       string
	N, NSets, NIn, T            int
	NI, NOut, S, K              int // inputs per block, outputs, state columns in the array, number of named states
	ON, OK, OT                  int
	NP                          int
	MaxDims                     []int
	DimNames                    []string
	PadN, PadK, PadT, PadS      int
	Seed                        int64
	Backend                     string
	Warm, Record                bool
	PMode                       string
	OMode, IMode                string
	Probe                       bool
}

type group struct {
	Cells []int            `json:"cells"`
	Acc   map[string][]int `json:"acc"`
}

type arrays struct {
	P, S, I, O []float64
}

type result struct {
	Cmd     string              `json:"cmd"`
	Model   string              `json:"model"`
	Ok      bool                `json:"ok"`
	Fails   []string            `json:"fails"`
	Layout  *layout             `json:"layout,omitempty"`
	PHex    []string            `json:"p_hex,omitempty"`
	Cells   []map[string][]int  `json:"cells,omitempty"` // per cell: "RI","RS","RO","RP","WI","WS","WO","WP","UI","US","UO","UP" sorted offsets
	Stray   []string            `json:"stray,omitempty"` // accesses by goroutines that could not be attributed to a cell
	Groups  []group             `json:"groups,omitempty"` // goroutines that handled SEVERAL cells (not the modelled structure)
	MaxCellsPerGoroutine int    `json:"max_cells_per_goroutine"`
	Goroutines int              `json:"goroutines"`
	NAcc    int                 `json:"n_accesses"`
	Changed map[string]int      `json:"changed,omitempty"`
	Positions map[string][]string `json:"positions,omitempty"` // how each scalar parameter was drawn, per parameter set
	OnTablePoint int            `json:"on_table_point_values"` // inputs / states placed exactly on parameter-table points
	ViewVariant int             `json:"view_variant"`
	ViewRuns   int              `json:"view_runs"`
	Unwritten  []int            `json:"unwritten_per_output,omitempty"` // dirty outputs: untouched elements per output
	PerOutput  int              `json:"elements_per_output,omitempty"`
	SecondRuns int              `json:"second_runs"` // Run called again on the same input/parameter objects
	Digest  string              `json:"digest,omitempty"` // sha256 of the output and state arrays after the vectorised run
	Extra   map[string]interface{} `json:"extra,omitempty"`
}

// ---------------------------------------------------------------- parameter generation

func isDimName(desc sim.ModelDescription, name string) bool {
	for _, d := range desc.Dimensions {
		if d == name {
			return true
		}
	}
	return false
}

// one parameter set: scalar values (dimension parameters included) and tables keyed by parameter name
// How scalar parameters are drawn.
//   std : inside the documented range (no range: the default or a moderate positive value)
//   edge: each parameter at one of five POSITIONS, rotating with (rot + 2*paramIndex + set):
//         lo / hi (exactly the range ends), zero (exactly 0 when 0 is inside or at the edge of the
//         range, or when no range is documented), default, inside
//   out : outside the documented range: an inside value x100 or negated
type drawMode struct {
	kind string
	rot  int
	dims []int // when set: the value of every dimension parameter of parameter set c is dims[c % len(dims)]
}

var positions = []string{"lo", "zero", "inside", "hi", "default"}

func genScalar(model string, p sim.ParameterDescription, rng *rand.Rand, mode drawMode, j, c int) (float64, string) {
	switch model + "." + p.Name {
	case "DateGenerator.startDate", "DateGenerator.day":
		return float64(1 + rng.Intn(28)), "valid"
	case "DateGenerator.startMonth", "DateGenerator.month":
		return float64(1 + rng.Intn(12)), "valid"
	case "DateGenerator.startYear", "DateGenerator.year":
		return float64(1900 + rng.Intn(200)), "valid"
	}
	lo, hi := p.Range[0], p.Range[1]
	inside := func() float64 {
		if hi > lo {
			w := hi - lo
			return lo + w*(0.05+0.9*rng.Float64())
		}
		if p.Default != 0 && rng.Intn(2) == 0 {
			return p.Default
		}
		return 0.5 + 2.5*rng.Float64()
	}
	v := inside() // always consume the same random numbers, whatever the mode
	switch mode.kind {
	case "edge":
		pos := positions[(mode.rot+2*j+c)%len(positions)]
		hasRange := hi > lo
		switch pos {
		case "lo":
			if hasRange {
				return lo, "lo"
			}
			return 0, "zero"
		case "hi":
			if hasRange {
				return hi, "hi"
			}
		case "zero":
			if !hasRange || (lo <= 0 && 0 <= hi) {
				return 0, "zero"
			}
			return lo, "lo"
		case "default":
			if !hasRange || (lo <= p.Default && p.Default <= hi) {
				return p.Default, "default"
			}
		}
		return v, "inside"
	case "out":
		if rng.Intn(2) == 0 {
			return v * 100, "x100"
		}
		return -v, "negated"
	case "def": // the documented default (when there is one)
		if p.Default != 0 {
			return p.Default, "default"
		}
	}
	return v, "inside"
}

type paramSet struct {
	pos     map[string]string
	scalars map[string]float64
	dims    map[string]int
	tables  map[string][]float64 // row-major over the cell's OWN extents
}

func genParamSet(model string, desc sim.ModelDescription, rng *rand.Rand, shared map[string]float64, mode drawMode, c int) paramSet {
	ps := paramSet{map[string]string{}, map[string]float64{}, map[string]int{}, map[string][]float64{}}
	for pj, p := range desc.Parameters {
		if len(p.Dimensions) == 0 {
			if isDimName(desc, p.Name) {
				d := 2 + rng.Intn(3)
				if mode.kind == "edge" && d < 3 {
					d = 3 // room for a repeated interior breakpoint
				}
				if len(mode.dims) > 0 {
					d = mode.dims[c%len(mode.dims)]
				}
				ps.dims[p.Name] = d
				ps.scalars[p.Name] = float64(d)
			} else if v, ok := shared[p.Name]; ok {
				ps.scalars[p.Name] = v
			} else {
				ps.scalars[p.Name], ps.pos[p.Name] = genScalar(model, p, rng, mode, pj, c)
			}
		}
	}
	tj := 0
	for _, p := range desc.Parameters {
		if len(p.Dimensions) > 0 {
			tj++
			n := 1
			for _, d := range p.Dimensions {
				n *= ps.dims[d]
			}
			vals := make([]float64, n)
			step := 0.5 + rng.Float64()
			acc := 0.0
			if p.Name == "levels" || p.Name == "inputAmount" {
				acc = 0
			}
			if len(mode.dims) > 0 && p.Name != "inputAmount" && p.Name != "minRelease" && p.Name != "maxRelease" && p.Name != "areas" {
				// forced table sizes (degenerate sizes, one-row tables): the tables do not start at 0, so that a
				// one-row table carries information (and the rows of different tables differ)
				acc = step * (1 + float64(tj))
			}
			for k := range vals {
				vals[k] = acc
				acc += step * (1 + rng.Float64())
			}
			switch p.Name {
			case "proportion":
				for k := range vals {
					vals[k] = rng.Float64()
				}
			case "inputAmount": // RatingCurvePartition panics when an input lies outside the table
				for k := range vals {
					vals[k] *= 100
				}
			case "volumes":
				for k := range vals {
					vals[k] *= 1e6
				}
			case "areas":
				for k := range vals {
					vals[k] *= 1e3
				}
			case "minRelease":
				for k := range vals {
					vals[k] *= 1e-3
				}
			case "maxRelease":
				for k := range vals {
					vals[k] *= 1e-2
				}
			}
			if mode.kind == "out" {
				for k := range vals {
					vals[k] *= 100
				}
				ps.pos[p.Name] = "x100"
			}
			if mode.kind == "edge" && len(p.Dimensions) == 1 && n >= 3 {
				// a REPEATED breakpoint (a step in the curve), at a position that differs between the
				// tables of one model so that abscissa and ordinate tables do not step together
				// (never the first pair: a zero-width FIRST segment makes the pristine lookup divide 0/0)
				k := 2 + (mode.rot+tj+c)%(n-2)
				vals[k] = vals[k-1]
				ps.pos[p.Name] = "repeated-breakpoint"
			}
			ps.tables[p.Name] = vals
		}
	}
	return ps
}

// lay the sets out as the parameter matrix [nP x nSets] with table blocks of max-extent size
func layoutParams(desc sim.ModelDescription, sets []paramSet, maxd map[string]int) (p []float64, nP int) {
	nSets := len(sets)
	for _, pd := range desc.Parameters {
		sz := 1
		for _, d := range pd.Dimensions {
			sz *= maxd[d]
		}
		nP += sz
	}
	p = make([]float64, nP*nSets)
	row := 0
	for _, pd := range desc.Parameters {
		if len(pd.Dimensions) == 0 {
			for c, s := range sets {
				p[row*nSets+c] = s.scalars[pd.Name]
			}
			row++
			continue
		}
		sz := 1
		for _, d := range pd.Dimensions {
			sz *= maxd[d]
		}
		for c, s := range sets {
			own := make([]int, len(pd.Dimensions))
			mx := make([]int, len(pd.Dimensions))
			for a, d := range pd.Dimensions {
				own[a] = s.dims[d]
				mx[a] = maxd[d]
			}
			// unused part of the block: a recognisable filler
			for k := 0; k < sz; k++ {
				p[(row+k)*nSets+c] = -999.25
			}
			forEachIndex(own, func(pos int, idx []int) {
				r := 0
				for a := range idx {
					r = r*mx[a] + idx[a]
				}
				p[(row+r)*nSets+c] = s.tables[pd.Name][pos]
			})
		}
		row += sz
	}
	return
}

// ---------------------------------------------------------------- array construction

type backend interface {
	make2(dims []int, init []float64) (data.ND2Float64, func() []float64, func() []string)
	make3(dims []int, init []float64) (data.ND3Float64, func() []float64, func() []string)
}

type goBackend struct{}

func (goBackend) make2(dims []int, init []float64) (data.ND2Float64, func() []float64, func() []string) {
	buf := append([]float64(nil), init...)
	return data.ArrayFromSliceFloat64(buf, dims).(data.ND2Float64), func() []float64 { return buf }, func() []string { return nil }
}
func (goBackend) make3(dims []int, init []float64) (data.ND3Float64, func() []float64, func() []string) {
	buf := append([]float64(nil), init...)
	return data.ArrayFromSliceFloat64(buf, dims).(data.ND3Float64), func() []float64 { return buf }, func() []string { return nil }
}

func prepModel(name string, p data.ND2Float64, dims []int) sim.TimeSteppingModel {
	m := sim.Catalog[name]()
	if dims == nil {
		dims = m.FindDimensions(p)
	}
	if len(dims) > 0 {
		m.InitialiseDimensions(dims)
	}
	m.ApplyParameters(p)
	return m
}

// the caller-visible descriptor of an array: Shape(), NDims() and Len(axis) for every axis
type shaped interface {
	Shape() []int
	NDims() int
	Len(int) int
}

func descriptor(a shaped) []int {
	sh := a.Shape()
	d := []int{a.NDims(), len(sh)}
	d = append(d, sh...) // a COPY of the extents (Shape() hands out the live slice)
	for ax := 0; ax < len(sh); ax++ {
		d = append(d, a.Len(ax))
	}
	return d
}

func sameInts(a, b []int) bool {
	if len(a) != len(b) {
		return false
	}
	for i := range a {
		if a[i] != b[i] {
			return false
		}
	}
	return true
}

// snapshot the descriptors of the four arrays; the returned function reports those that changed
func watchShapes(names []string, arrs []shaped) func() []string {
	before := make([][]int, len(arrs))
	for i, a := range arrs {
		before[i] = descriptor(a)
	}
	return func() []string {
		var bad []string
		for i, a := range arrs {
			if after := descriptor(a); !sameInts(before[i], after) {
				bad = append(bad, fmt.Sprintf("%s array descriptor changed by Run: [ndims, len(shape), shape.., Len(axis)..] %v -> %v", names[i], before[i], after))
			}
		}
		return bad
	}
}

var arrNames = []string{"parameters", "states", "inputs", "outputs"}

func bitsEqual(a, b []float64) int {
	if len(a) != len(b) {
		return 0
	}
	for i := range a {
		if math.Float64bits(a[i]) != math.Float64bits(b[i]) {
			return i
		}
	}
	return -1
}

// what a re-used output array holds before Run: a NaN payload and a large finite value, alternating
func staleOut(off int) float64 {
	if off%2 == 0 {
		return math.Float64frombits(0x7ff8dead00000000 | uint64(off&0xffff))
	}
	return 3.25e300 + float64(off%1000)*1e287
}

// ---------------------------------------------------------------- the RUN case

func runCase(t []string) *result {
	res := &result{Cmd: "RUN", Ok: true}
	fail := func(f string, a ...interface{}) {
		res.Ok = false
		if len(res.Fails) < 12 {
			res.Fails = append(res.Fails, fmt.Sprintf(f, a...))
		}
	}
	atoi := func(s string) int { n, _ := strconv.Atoi(s); return n }
	L := &layout{Model: t[0], N: atoi(t[1]), NSets: atoi(t[2]), NIn: atoi(t[3]), T: atoi(t[4]),
		PadN: atoi(t[5]), PadK: atoi(t[6]), PadT: atoi(t[7]), PadS: atoi(t[8]), Backend: t[10], Warm: t[11] == "1", Record: t[12] == "1"}
	L.Seed, _ = strconv.ParseInt(t[9], 10, 64)
	mode := drawMode{kind: "std"}
	L.PMode = "std"
	if len(t) > 13 {
		L.PMode = t[13]
		if strings.HasPrefix(t[13], "edge") {
			mode.kind = "edge"
			mode.rot, _ = strconv.Atoi(t[13][4:])
		} else if t[13] == "out" {
			mode.kind = "out"
		} else if t[13] == "def" {
			mode.kind = "def"
		}
	}
	// t[15]: "dirty" = the needed part of the output array is PRE-FILLED with a sentinel pattern (a NaN
	// payload and a large finite value, alternating) instead of zeros: a caller re-using an output array;
	// t[16]: forcing: rand | zero (every input series all zero) | zeroK (input K all zero) | const
	dirtyOut := len(t) > 15 && t[15] == "dirty"
	imode := "rand"
	if len(t) > 16 {
		imode = t[16]
	}
	L.OMode, L.IMode = map[bool]string{true: "dirty", false: "zero"}[dirtyOut], imode
	probeVec := false
	if len(t) > 14 {
		L.Probe = t[14] == "1"
		probeVec = t[14] == "2"
	}
	res.Model = L.Model
	res.Layout = L
	factory := sim.Catalog[L.Model]
	if factory == nil {
		fail("no such model")
		return res
	}
	desc := factory().Description()
	rng := rand.New(rand.NewSource(L.Seed))
	L.NI, L.NOut, L.K = len(desc.Inputs), len(desc.Outputs), len(desc.States)
	L.DimNames = desc.Dimensions
	var be backend = goBackend{}
	if L.Backend == "c" {
		be = cBackend{}
	}

	// parameters.  State-length parameters (GR4J X4, Lag timeLag) are equal across sets: the
	// state matrix has ONE width (known finding init-states-sized-from-cell0 covers the rest).
	shared := map[string]float64{}
	switch L.Model {
	case "GR4J":
		shared["X4"] = 0.5 + 3.5*rng.Float64()
	case "Lag":
		shared["timeLag"] = float64(rng.Intn(4))
	}
	sets := make([]paramSet, L.NSets)
	maxd := map[string]int{}
	for c := range sets {
		sets[c] = genParamSet(L.Model, desc, rng, shared, mode, c)
		for d, v := range sets[c].dims {
			if v > maxd[d] {
				maxd[d] = v
			}
		}
	}
	res.Positions = map[string][]string{}
	for _, pd := range desc.Parameters {
		for c := range sets {
			if ps, ok := sets[c].pos[pd.Name]; ok {
				res.Positions[pd.Name] = append(res.Positions[pd.Name], ps)
			}
		}
	}
	P, nP := layoutParams(desc, sets, maxd)
	L.NP = nP
	for _, d := range desc.Dimensions {
		L.MaxDims = append(L.MaxDims, maxd[d])
	}
	for _, v := range P {
		res.PHex = append(res.PHex, hex(v))
	}

	// FindDimensions must recover the maxima
	{
		pa, _, _ := goBackend{}.make2([]int{nP, L.NSets}, P)
		got := factory().FindDimensions(pa)
		if len(got) != len(L.MaxDims) {
			fail("FindDimensions returned %v, expected %v", got, L.MaxDims)
		} else {
			for k := range got {
				if got[k] != L.MaxDims[k] {
					fail("FindDimensions returned %v, expected %v", got, L.MaxDims)
				}
			}
		}
	}

	// initial states from the model itself (N rows), optionally warmed up by one vectorised run
	pa0, _, _ := goBackend{}.make2([]int{nP, L.NSets}, P)
	m0 := prepModel(L.Model, pa0, nil)
	st0 := m0.InitialiseStates(L.N)
	Sinit := st0.Len(1)
	if L.K == 0 || Sinit != L.K {
		L.PadS = 0 // padding state columns only makes sense for the Get1/Set1 flavour
	}
	if Sinit != L.K && L.K > 0 && !(L.Model == "GR4J" || L.Model == "Lag") {
		fail("InitialiseStates width %d but %d named states", Sinit, L.K)
	}
	L.S = Sinit + L.PadS
	I := make([]float64, L.NIn*L.NI*L.T)
	for k := range I {
		if rng.Intn(5) == 0 {
			I[k] = 0
		} else {
			I[k] = 10 * rng.Float64()
		}
	}
	switch {
	case imode == "zero":
		for k := range I {
			I[k] = 0
		}
	case imode == "const":
		for k := range I {
			I[k] = I[(k/maxInt(L.T, 1))*L.T] // every series constant (its first value)
		}
	case strings.HasPrefix(imode, "zero"):
		kz, _ := strconv.Atoi(imode[4:])
		for k := range I {
			if L.NI > 0 && (k/maxInt(L.T, 1))%L.NI == kz%L.NI {
				I[k] = 0
			}
		}
	}
	// dimensioned models, edge mode: about half of the input values lie EXACTLY on a point of one of the
	// parameter tables (first, interior, repeated, last) of one of the parameter sets
	var tablePoints []float64
	if mode.kind == "edge" {
		// only points that lie inside the SAME table of every parameter set (a lookup outside a table panics)
		for _, pd := range desc.Parameters {
			lo, hi := math.Inf(-1), math.Inf(1)
			for _, set := range sets {
				if t := set.tables[pd.Name]; len(t) > 0 {
					mn, mx := t[0], t[0]
					for _, v := range t {
						mn, mx = math.Min(mn, v), math.Max(mx, v)
					}
					lo, hi = math.Max(lo, mn), math.Min(hi, mx)
				}
			}
			for _, set := range sets {
				for _, v := range set.tables[pd.Name] {
					if v >= lo && v <= hi {
						tablePoints = append(tablePoints, v)
					}
				}
			}
		}
	}
	rng2 := rand.New(rand.NewSource(L.Seed ^ 0x5eed))
	if len(tablePoints) > 0 {
		// every second input value walks through the table points (offset by the rotation), so that
		// the five rotations put inputs on every point of every table of every set
		for k := range I {
			if k%2 == 0 {
				I[k] = tablePoints[(k/2+7*mode.rot)%len(tablePoints)]
				res.OnTablePoint++
			}
		}
	}
	if L.Warm && L.T > 0 {
		wi, _, _ := goBackend{}.make3([]int{L.NIn, L.NI, L.T}, I)
		wo := sim.InitialiseOutputs(m0, L.T, L.N)
		m0.Run(wi, st0, wo)
	}
	S := make([]float64, L.N*L.S)
	for i := 0; i < L.N; i++ {
		for j := 0; j < L.S; j++ {
			if j < Sinit {
				S[i*L.S+j] = st0.Get2(i, j)
				if len(tablePoints) > 0 && Sinit == L.K && rng2.Intn(2) == 0 {
					S[i*L.S+j] = tablePoints[rng2.Intn(len(tablePoints))] // a state exactly on a table point
					res.OnTablePoint++
				}
			} else {
				S[i*L.S+j] = canary(1000 + i*L.S + j)
			}
		}
	}
	L.ON, L.OK, L.OT = L.N+L.PadN, L.NOut+L.PadK, L.T+L.PadT
	O := make([]float64, L.ON*L.OK*L.OT)
	needed := func(off int) bool {
		t := off % L.OT
		k := (off / L.OT) % L.OK
		i := off / (L.OT * L.OK)
		return i < L.N && k < L.NOut && t < L.T
	}
	for off := range O {
		if !needed(off) {
			O[off] = canary(off)
		} else if dirtyOut {
			O[off] = staleOut(off)
		}
	}
	orig := arrays{P: P, S: S, I: I, O: O}

	if probeVec {
		// only ONE vectorised run on fresh arrays: does the kernel survive this draw when run vectorised?
		pa, _, _ := be.make2([]int{nP, L.NSets}, orig.P)
		sa, _, _ := be.make2([]int{L.N, L.S}, orig.S)
		ia, _, _ := be.make3([]int{L.NIn, L.NI, L.T}, orig.I)
		oa, _, _ := be.make3([]int{L.ON, L.OK, L.OT}, orig.O)
		prepModel(L.Model, pa, nil).Run(ia, sa, oa)
		res.Cmd = "PROBEVEC"
		return res
	}
	if L.Probe {
		// only the N single-cell runs: does the KERNEL survive these parameter draws at all?
		// (a kernel panic kills the process; the caller then skips the case)
		for i := 0; i < L.N; i++ {
			c := i % L.NSets
			ci := i % L.NIn
			Pi := make([]float64, nP)
			for r := 0; r < nP; r++ {
				Pi[r] = orig.P[r*L.NSets+c]
			}
			pa, _, _ := be.make2([]int{nP, 1}, Pi)
			m := prepModel(L.Model, pa, append([]int(nil), L.MaxDims...))
			sa, _, _ := be.make2([]int{1, L.S}, append([]float64(nil), orig.S[i*L.S:(i+1)*L.S]...))
			ia, _, _ := be.make3([]int{1, L.NI, L.T}, append([]float64(nil), orig.I[ci*L.NI*L.T:(ci+1)*L.NI*L.T]...))
			oa, _, _ := be.make3([]int{1, L.NOut, L.T}, make([]float64, L.NOut*L.T))
			m.Run(ia, sa, oa)
		}
		res.Cmd = "PROBE"
		return res
	}

	// (A) vectorised run on plain arrays
	secondRuns := 0
	runVec := func(twice bool) (arrays, []string) {
		pa, pget, pg := be.make2([]int{nP, L.NSets}, orig.P)
		sa, sget, sg := be.make2([]int{L.N, L.S}, orig.S)
		ia, iget, ig := be.make3([]int{L.NIn, L.NI, L.T}, orig.I)
		oa, oget, og := be.make3([]int{L.ON, L.OK, L.OT}, orig.O)
		m := prepModel(L.Model, pa, nil)
		changed := watchShapes(arrNames, []shaped{pa, sa, ia, oa})
		m.Run(ia, sa, oa)
		var guard []string
		for _, c := range changed() {
			guard = append(guard, "vectorised run: "+c)
		}
		for _, g := range []func() []string{pg, sg, ig, og} {
			guard = append(guard, g()...)
		}
		first := arrays{P: append([]float64(nil), pget()...), S: append([]float64(nil), sget()...),
			I: append([]float64(nil), iget()...), O: append([]float64(nil), oget()...)}
		if twice {
			// a SECOND Run on the very same input / parameter / model objects: states reset to the
			// saved initial values, fresh outputs -> must reproduce the first call bit for bit
			secondRuns++
			copy(sget(), orig.S)
			oa2, oget2, _ := be.make3([]int{L.ON, L.OK, L.OT}, orig.O)
			m.Run(ia, sa, oa2)
			if k := bitsEqual(oget2(), first.O); k >= 0 {
				guard = append(guard, fmt.Sprintf("second Run on the same input/parameter objects differs from the first in outputs at flat offset %d (cell %d): %v vs %v",
					k, k/(L.OT*L.OK), oget2()[k], first.O[k]))
			}
			if k := bitsEqual(sget(), first.S); k >= 0 {
				guard = append(guard, fmt.Sprintf("second Run on the same input/parameter objects differs from the first in states at flat offset %d", k))
			}
			if k := bitsEqual(iget(), orig.I); k >= 0 {
				guard = append(guard, fmt.Sprintf("inputs modified after two Runs at flat offset %d", k))
			}
			for _, c := range changed() {
				guard = append(guard, "after the second Run: "+c)
			}
			// a second MODEL instance driven by the same input object
			m2 := prepModel(L.Model, pa, nil)
			copy(sget(), orig.S)
			oa3, oget3, _ := be.make3([]int{L.ON, L.OK, L.OT}, orig.O)
			m2.Run(ia, sa, oa3)
			if k := bitsEqual(oget3(), first.O); k >= 0 {
				guard = append(guard, fmt.Sprintf("a second model instance run on the same input object differs in outputs at flat offset %d (cell %d)", k, k/(L.OT*L.OK)))
			}
			copy(sget(), first.S)
		}
		return first, guard
	}
	A, guardA := runVec(L.Seed%3 == 0 || L.N > 64)
	for _, g := range guardA {
		fail("%s", g)
	}
	if k := bitsEqual(A.P, orig.P); k >= 0 {
		fail("parameters modified at flat offset %d", k)
	}
	if k := bitsEqual(A.I, orig.I); k >= 0 {
		fail("inputs modified at flat offset %d", k)
	}
	nchO, nchS := 0, 0
	for off := range A.O {
		ch := math.Float64bits(A.O[off]) != math.Float64bits(orig.O[off])
		if ch {
			nchO++
		}
		if ch && !needed(off) {
			fail("output padding element %d (cell %d, output %d, t %d) overwritten", off, off/(L.OT*L.OK), (off/L.OT)%L.OK, off%L.OT)
		}
	}
	for off := range A.S {
		ch := math.Float64bits(A.S[off]) != math.Float64bits(orig.S[off])
		if ch {
			nchS++
		}
		if ch && off%L.S >= Sinit {
			fail("state padding column %d of cell %d overwritten", off%L.S, off/L.S)
		}
	}
	res.Changed = map[string]int{"O": nchO, "S": nchS}
	res.SecondRuns = secondRuns
	{
		h := sha256.New()
		for _, arr := range [][]float64{A.O, A.S} {
			for _, v := range arr {
				var b [8]byte
				binary.LittleEndian.PutUint64(b[:], math.Float64bits(v))
				h.Write(b[:])
			}
		}
		res.Digest = fmt.Sprintf("%x", h.Sum(nil))
	}
	// a second identical vectorised run must be bit-identical (schedule independence, sampled)
	A2, _ := runVec(false)
	if k := bitsEqual(A.O, A2.O); k >= 0 {
		fail("two vectorised runs differ in outputs at %d", k)
	}
	if k := bitsEqual(A.S, A2.S); k >= 0 {
		fail("two vectorised runs differ in states at %d", k)
	}

	// (A') the same vectorised run with the arrays handed over as VIEWS of larger tables
	// (not for an empty series: Unroll of an EMPTY view that does not start at offset 0 computes a
	// slice end before its start and panics in the array library itself - an observation for C01/C02)
	if L.N <= 300 && L.T > 0 {
		variant := int((L.Seed / 7) % 4)
		for _, f := range runOnViews(L, be, orig, A, nP, variant) {
			fail("%s", f)
		}
		res.ViewVariant = variant
		res.ViewRuns = 1
	}

	unwritten := make([]int, L.NOut) // per output: elements of the needed part the vectorised run left untouched (dirty mode)

	// (B) N single-cell runs
	maxDims := append([]int(nil), L.MaxDims...)
	for i := 0; i < L.N; i++ {
		c := i % L.NSets
		ci := i % L.NIn
		for variant := 0; variant < 2; variant++ {
			var Pi []float64
			var nPi int
			var dims []int
			if variant == 0 {
				// the cell's column of the matrix, same max-extents
				nPi = nP
				Pi = make([]float64, nP)
				for r := 0; r < nP; r++ {
					Pi[r] = orig.P[r*L.NSets+c]
				}
				dims = maxDims
			} else {
				if len(desc.Dimensions) == 0 {
					continue
				}
				// re-packed to the cell's OWN extents (FindDimensions on it)
				Pi, nPi = layoutParams(desc, []paramSet{sets[c]}, sets[c].dims)
				dims = nil
			}
			pa, _, _ := be.make2([]int{nPi, 1}, Pi)
			m := prepModel(L.Model, pa, dims)
			Si := append([]float64(nil), orig.S[i*L.S:(i+1)*L.S]...)
			sa, sget, _ := be.make2([]int{1, L.S}, Si)
			Ii := append([]float64(nil), orig.I[ci*L.NI*L.T:(ci+1)*L.NI*L.T]...)
			ia, _, _ := be.make3([]int{1, L.NI, L.T}, Ii)
			oa, oget, _ := be.make3([]int{1, L.NOut, L.T}, make([]float64, L.NOut*L.T))
			changed := watchShapes(arrNames, []shaped{pa, sa, ia, oa})
			m.Run(ia, sa, oa)
			for _, c := range changed() {
				fail("single-cell run of cell %d: %s", i, c)
			}
			o1, s1 := oget(), sget()
			for k := 0; k < L.NOut; k++ {
				for tt := 0; tt < L.T; tt++ {
					a := A.O[(i*L.OK+k)*L.OT+tt]
					b := o1[k*L.T+tt]
					if dirtyOut && math.Float64bits(a) == math.Float64bits(staleOut((i*L.OK+k)*L.OT+tt)) {
						// the vectorised run did NOT write this element (it still holds the stale value)
						if variant == 0 {
							unwritten[k]++
						}
						if math.Float64bits(b) != 0 {
							fail("cell %d output %d t %d: not written by the vectorised run (stale value kept) but the single-cell run on a fresh array gives %v", i, k, tt, b)
						}
						continue
					}
					if math.Float64bits(a) != math.Float64bits(b) {
						fail("cell %d output %d t %d: vectorised %v (%s) != single-cell(variant %d) %v (%s)", i, k, tt, a, hex(a), variant, b, hex(b))
					}
				}
			}
			for j := 0; j < L.S; j++ {
				a, b := A.S[i*L.S+j], s1[j]
				if math.Float64bits(a) != math.Float64bits(b) {
					fail("cell %d state %d: vectorised %v != single-cell(variant %d) %v", i, j, a, variant, b)
				}
			}
		}
	}

	if dirtyOut {
		res.Unwritten = unwritten
		res.PerOutput = L.N * L.T
	}

	// (C) recorded run
	if L.Record && L.Backend == "go" {
		log := &accessLog{}
		pv, proot := newRecRoot('P', []int{nP, L.NSets}, orig.P, log)
		sv, sroot := newRecRoot('S', []int{L.N, L.S}, orig.S, log)
		iv, iroot := newRecRoot('I', []int{L.NIn, L.NI, L.T}, orig.I, log)
		ov, oroot := newRecRoot('O', []int{L.ON, L.OK, L.OT}, orig.O, log)
		m := sim.Catalog[L.Model]()
		dims := m.FindDimensions(pv)
		if len(dims) > 0 {
			m.InitialiseDimensions(dims)
		}
		m.ApplyParameters(pv)
		mainG := goid()
		setup := len(log.acc)
		changedRec := watchShapes(arrNames, []shaped{pv, sv, iv, ov})
		m.Run(iv, sv, ov)
		for _, c := range changedRec() {
			fail("recorded run: %s", c)
		}
		if k := bitsEqual(oroot.buf, A.O); k >= 0 {
			fail("recorded run differs from plain run in outputs at %d", k)
		}
		if k := bitsEqual(sroot.buf, A.S); k >= 0 {
			fail("recorded run differs from plain run in states at %d", k)
		}
		if k := bitsEqual(iroot.buf, orig.I); k >= 0 {
			fail("recorded run modified inputs at %d", k)
		}
		if k := bitsEqual(proot.buf, orig.P); k >= 0 {
			fail("recorded run modified parameters at %d", k)
		}
		for _, p := range log.problems {
			fail("recorder: %s", p)
		}
		res.NAcc = len(log.acc) - setup
		// group by goroutine
		type sets map[string]map[int]bool
		byG := map[uint64]sets{}
		order := []uint64{}
		for _, a := range log.acc[setup:] {
			s := byG[a.gid]
			if s == nil {
				s = sets{}
				byG[a.gid] = s
				order = append(order, a.gid)
			}
			key := string([]byte{a.kind, a.root})
			if s[key] == nil {
				s[key] = map[int]bool{}
			}
			s[key][int(a.off)] = true
		}
		// attribute goroutines to cells: by the output / state row they write (or read)
		cellsOf := func(s sets) []int {
			cells := map[int]bool{}
			for _, key := range []string{"VO", "VS"} {
				for c := range s[key] {
					cells[c] = true
				}
			}
			var l []int
			for c := range cells {
				l = append(l, c)
			}
			sort.Ints(l)
			return l
		}
		cellOf := func(s sets) int {
			// the cell index the goroutine used when slicing the whole outputs / states arrays
			cells := map[int]bool{}
			for _, key := range []string{"VO", "VS"} {
				for c := range s[key] {
					cells[c] = true
				}
			}
			if len(cells) == 1 {
				for c := range cells {
					return c
				}
			}
			if len(cells) > 1 {
				return -2
			}
			for _, key := range []string{"WO", "RO", "UO"} {
				for off := range s[key] {
					return off / (L.OT * L.OK)
				}
			}
			for _, key := range []string{"WS", "RS", "US"} {
				for off := range s[key] {
					return off / L.S
				}
			}
			return -1
		}
		res.Cells = make([]map[string][]int, L.N)
		seen := map[int]bool{}
		for _, g := range order {
			s := byG[g]
			flat := map[string][]int{}
			for key, m := range s {
				if key[0] == 'V' {
					continue
				}
				for off := range m {
					flat[key] = append(flat[key], off)
				}
				sort.Ints(flat[key])
			}
			if g == mainG {
				if len(flat) > 0 {
					res.Stray = append(res.Stray, fmt.Sprintf("calling goroutine accessed array elements during Run: %v", keysOf(flat)))
				}
				continue
			}
			res.Goroutines++
			c := cellOf(s)
			if c == -2 {
				cl := cellsOf(s)
				if len(cl) > res.MaxCellsPerGoroutine {
					res.MaxCellsPerGoroutine = len(cl)
				}
				res.Groups = append(res.Groups, group{Cells: cl, Acc: flat})
				continue
			}
			if res.MaxCellsPerGoroutine < 1 {
				res.MaxCellsPerGoroutine = 1
			}
			if c < 0 || c >= L.N {
				if L.T > 0 || L.K > 0 {
					res.Stray = append(res.Stray, fmt.Sprintf("goroutine %d: accesses %v not attributable to a cell", g, keysOf(flat)))
				}
				continue
			}
			if seen[c] {
				res.Stray = append(res.Stray, fmt.Sprintf("two goroutines touch the rows of cell %d", c))
				continue
			}
			seen[c] = true
			res.Cells[c] = flat
		}
		// every changed element must have been logged as written (or exposed raw) by some goroutine
		logged := map[string]bool{}
		for _, a := range log.acc[setup:] {
			if a.kind == 'W' || a.kind == 'U' {
				logged[fmt.Sprintf("%c%d", a.root, a.off)] = true
			}
		}
		for off := range oroot.buf {
			if math.Float64bits(oroot.buf[off]) != math.Float64bits(orig.O[off]) && !logged[fmt.Sprintf("O%d", off)] {
				fail("output element %d changed but no write to it was recorded", off)
			}
		}
		for off := range sroot.buf {
			if math.Float64bits(sroot.buf[off]) != math.Float64bits(orig.S[off]) && !logged[fmt.Sprintf("S%d", off)] {
				fail("state element %d changed but no write to it was recorded", off)
			}
		}
	}
	return res
}

func keysOf(m map[string][]int) []string {
	var k []string
	for s, v := range m {
		k = append(k, fmt.Sprintf("%s:%d", s, len(v)))
	}
	sort.Strings(k)
	return k
}

// ---------------------------------------------------------------- INIT: InitialiseStates(n) row i = single-cell InitialiseStates(1)

func initCase(t []string) *result {
	res := &result{Cmd: "INIT", Ok: true, Model: t[0], Extra: map[string]interface{}{}}
	fail := func(f string, a ...interface{}) {
		res.Ok = false
		if len(res.Fails) < 12 {
			res.Fails = append(res.Fails, fmt.Sprintf(f, a...))
		}
	}
	n, _ := strconv.Atoi(t[1])
	nSets, _ := strconv.Atoi(t[2])
	seed, _ := strconv.ParseInt(t[3], 10, 64)
	hetero := t[4] == "1"
	sameLen := t[4] == "2" // different parameter values per set, but the SAME state length
	factory := sim.Catalog[t[0]]
	desc := factory().Description()
	rng := rand.New(rand.NewSource(seed))
	shared := map[string]float64{}
	bucket := 1 + rng.Intn(3)
	if !hetero && !sameLen {
		switch t[0] {
		case "GR4J":
			shared["X4"] = 0.5 + 3.5*rng.Float64()
		case "Lag":
			shared["timeLag"] = float64(rng.Intn(4))
		}
	}
	sets := make([]paramSet, nSets)
	maxd := map[string]int{}
	for c := range sets {
		sets[c] = genParamSet(t[0], desc, rng, shared, drawMode{kind: "std"}, c)
		if hetero && t[0] == "Lag" {
			sets[c].scalars["timeLag"] = float64(rng.Intn(5))
		}
		if sameLen {
			switch t[0] {
			case "GR4J": // x4 in (b-1/2, b): same ceil(x4) and ceil(2*x4)
				sets[c].scalars["X4"] = float64(bucket) - 0.45 + 0.4*rng.Float64()
			case "Lag": // same int(timeLag)
				sets[c].scalars["timeLag"] = float64(bucket) + 0.9*rng.Float64()
			}
		}
		for d, v := range sets[c].dims {
			if v > maxd[d] {
				maxd[d] = v
			}
		}
	}
	P, nP := layoutParams(desc, sets, maxd)
	var lens []int
	var singles [][]float64
	for i := 0; i < n; i++ {
		c := i % nSets
		Pi := make([]float64, nP)
		for r := 0; r < nP; r++ {
			Pi[r] = P[r*nSets+c]
		}
		pa, _, _ := goBackend{}.make2([]int{nP, 1}, Pi)
		var dims []int
		for _, d := range desc.Dimensions {
			dims = append(dims, maxd[d])
		}
		m := prepModel(t[0], pa, dims)
		s1 := m.InitialiseStates(1)
		row := make([]float64, s1.Len(1))
		for j := range row {
			row[j] = s1.Get2(0, j)
		}
		singles = append(singles, row)
		lens = append(lens, len(row))
	}
	res.Extra["state_lengths"] = lens
	// what the faithful model needs: the parameter matrix and the init function as a table
	// (parameter set -> state row of the single-cell InitialiseStates on that set's column)
	res.Extra["nP"] = nP
	var phex []string
	for _, v := range P {
		phex = append(phex, hex(v))
	}
	res.Extra["p_hex"] = phex
	var rowsHex [][]string
	for c := 0; c < nSets; c++ {
		Pi := make([]float64, nP)
		for r := 0; r < nP; r++ {
			Pi[r] = P[r*nSets+c]
		}
		pa, _, _ := goBackend{}.make2([]int{nP, 1}, Pi)
		var dims []int
		for _, d := range desc.Dimensions {
			dims = append(dims, maxd[d])
		}
		s1 := prepModel(t[0], pa, dims).InitialiseStates(1)
		rh := []string{}
		for j := 0; j < s1.Len(1); j++ {
			rh = append(rh, hex(s1.Get2(0, j)))
		}
		rowsHex = append(rowsHex, rh)
	}
	res.Extra["set_rows_hex"] = rowsHex
	same := true
	for _, l := range lens {
		if l != lens[0] {
			same = false
		}
	}
	res.Extra["all_same_length"] = same
	func() {
		defer func() {
			if r := recover(); r != nil {
				res.Extra["panic"] = fmt.Sprint(r)
				fail("InitialiseStates(%d) panicked: %v (state lengths %v)", n, r, lens)
			}
		}()
		pa, _, _ := goBackend{}.make2([]int{nP, nSets}, P)
		m := prepModel(t[0], pa, nil)
		st := m.InitialiseStates(n)
		w := st.Len(1)
		res.Extra["matrix"] = []int{st.Len(0), w}
		var mh []string
		for i := 0; i < st.Len(0); i++ {
			for j := 0; j < w; j++ {
				mh = append(mh, hex(st.Get2(i, j)))
			}
		}
		res.Extra["matrix_hex"] = mh
		for i := 0; i < n; i++ {
			if len(singles[i]) != w {
				fail("cell %d: matrix row has %d columns, its single-cell initial state has %d", i, w, len(singles[i]))
				continue
			}
			for j := 0; j < w; j++ {
				if math.Float64bits(st.Get2(i, j)) != math.Float64bits(singles[i][j]) {
					fail("cell %d state %d: matrix %v != single-cell %v", i, j, st.Get2(i, j), singles[i][j])
				}
			}
		}
	}()
	return res
}

// OUTALLOC <Model> nT nC: output arrays handed out by sim.InitialiseOutputs (what ow-sim gives each
// model type of each generation, and keeps for the asynchronous writer) must be distinct objects:
// a later request (same model type, same size: the next generation) must not hand out, zero or
// overwrite an array that is still in use.
func outAlloc(t []string) *result {
	res := &result{Cmd: "OUTALLOC", Ok: true, Model: t[0], Extra: map[string]interface{}{}}
	nT, _ := strconv.Atoi(t[1])
	nC, _ := strconv.Atoi(t[2])
	factory := sim.Catalog[t[0]]
	m1, m2 := factory(), factory()
	first := sim.InitialiseOutputs(m1, nT, nC)
	nOut := first.Len(1)
	res.Extra["elements"] = nC * nOut * nT
	for i := 0; i < nC; i++ {
		for k := 0; k < nOut; k++ {
			for tt := 0; tt < nT; tt += 97 {
				first.Set3(i, k, tt, canary(i+k+tt))
			}
		}
	}
	for round := 0; round < 2; round++ {
		mm := m1
		if round == 1 {
			mm = m2
		}
		next := sim.InitialiseOutputs(mm, nT, nC)
		next.Set3(0, 0, 0, 12345.5)
		for i := 0; i < nC && res.Ok; i++ {
			for k := 0; k < nOut && res.Ok; k++ {
				for tt := 0; tt < nT; tt += 97 {
					if math.Float64bits(first.Get3(i, k, tt)) != math.Float64bits(canary(i+k+tt)) {
						res.Ok = false
						res.Fails = append(res.Fails, fmt.Sprintf("an output array still in use (e.g. handed to the writer) was zeroed / overwritten by a later sim.InitialiseOutputs of the same model type and size: element (%d,%d,%d) is %v (request %d, %d elements)",
							i, k, tt, first.Get3(i, k, tt), round+2, nC*nOut*nT))
						break
					}
				}
			}
		}
	}
	return res
}

// INITSEQ <Model> n nSets T seed: InitialiseStates on a LONG-LIVED model object.  Every call
// (before / after Run, same and different n, with and without re-applying the parameters) must
// return a NEW array equal to what a fresh model object returns, and arrays returned earlier must
// not change when a later one is written.
func initSeq(t []string) *result {
	res := &result{Cmd: "INITSEQ", Ok: true, Model: t[0], Extra: map[string]interface{}{}}
	fail := func(f string, a ...interface{}) {
		res.Ok = false
		if len(res.Fails) < 10 {
			res.Fails = append(res.Fails, fmt.Sprintf(f, a...))
		}
	}
	n, _ := strconv.Atoi(t[1])
	nSets, _ := strconv.Atoi(t[2])
	T, _ := strconv.Atoi(t[3])
	seed, _ := strconv.ParseInt(t[4], 10, 64)
	factory := sim.Catalog[t[0]]
	desc := factory().Description()
	rng := rand.New(rand.NewSource(seed))
	shared := map[string]float64{}
	switch t[0] {
	case "GR4J":
		shared["X4"] = 0.5 + 3.5*rng.Float64()
	case "Lag":
		shared["timeLag"] = float64(1 + rng.Intn(3))
	}
	sets := make([]paramSet, nSets)
	maxd := map[string]int{}
	for c := range sets {
		sets[c] = genParamSet(t[0], desc, rng, shared, drawMode{kind: "std"}, c)
		for d, v := range sets[c].dims {
			if v > maxd[d] {
				maxd[d] = v
			}
		}
	}
	P, nP := layoutParams(desc, sets, maxd)
	mk := func() (sim.TimeSteppingModel, data.ND2Float64) {
		pa, _, _ := goBackend{}.make2([]int{nP, nSets}, P)
		return prepModel(t[0], pa, nil), pa
	}
	flat := func(a data.ND2Float64) []float64 {
		r := make([]float64, 0, a.Len(0)*a.Len(1))
		for i := 0; i < a.Len(0); i++ {
			for j := 0; j < a.Len(1); j++ {
				r = append(r, a.Get2(i, j))
			}
		}
		return r
	}
	freshInit := func(k int) []float64 { m, _ := mk(); return flat(m.InitialiseStates(k)) }
	runOn := func(m sim.TimeSteppingModel, st data.ND2Float64) {
		k := st.Len(0)
		I := make([]float64, k*len(desc.Inputs)*T)
		for j := range I {
			I[j] = 1 + 9*rng.Float64()
		}
		ia, _, _ := goBackend{}.make3([]int{k, len(desc.Inputs), T}, I)
		m.Run(ia, st, sim.InitialiseOutputs(m, T, k))
	}
	m, pa := mk()
	type held struct {
		arr  data.ND2Float64
		want []float64
		what string
	}
	var earlier []held
	check := func(what string, k int) data.ND2Float64 {
		st := m.InitialiseStates(k)
		want := freshInit(k)
		got := flat(st)
		if j := bitsEqual(got, want); j != -1 {
			fail("%s: InitialiseStates(%d) on the long-lived model differs from a fresh model object (element %d: %v vs %v; widths %d vs %d)",
				what, k, j, at(got, j), at(want, j), len(got), len(want))
		}
		// arrays handed out earlier must be other objects: unchanged by this call ...
		for _, h := range earlier {
			if j := bitsEqual(flat(h.arr), h.want); j >= 0 {
				fail("%s: the array returned by an earlier InitialiseStates (%s) changed (element %d)", what, h.what, j)
			}
		}
		return st
	}
	hold := func(st data.ND2Float64, what string) { earlier = append(earlier, held{st, flat(st), what}) }
	s1 := check("first call", n)
	runOn(m, s1) // the first simulation dirties ITS state array
	hold(s1, "first call, after its Run")
	s2 := check("second call after a Run", n)
	// ... and writing the new one must not reach them
	for i := 0; i < s2.Len(0); i++ {
		for j := 0; j < s2.Len(1); j++ {
			s2.Set2(i, j, canary(i+j))
		}
	}
	for _, h := range earlier {
		if j := bitsEqual(flat(h.arr), h.want); j >= 0 {
			fail("writing the array of the second InitialiseStates changed the array of the %s (element %d): the two simulations share one state array", h.what, j)
		}
	}
	hold(s2, "second call, overwritten")
	s3 := check("third call (untouched second simulation)", n)
	hold(s3, "third call")
	s4 := check("different cell count", n+1)
	runOn(m, s4)
	hold(s4, "n+1 call, after its Run")
	check("back to the first cell count", n)
	m.ApplyParameters(pa)
	s5 := check("after re-applying the parameters", n)
	runOn(m, s5)
	check("after re-applying the parameters and a Run", n)
	return res
}

func at(a []float64, j int) interface{} {
	if j >= 0 && j < len(a) {
		return a[j]
	}
	return "-"
}

func descDump() *result {
	res := &result{Cmd: "DESC", Ok: true, Extra: map[string]interface{}{}}
	names := []string{}
	for n := range sim.Catalog {
		names = append(names, n)
	}
	sort.Strings(names)
	for _, n := range names {
		d := sim.Catalog[n]().Description()
		ps := []map[string]interface{}{}
		for _, p := range d.Parameters {
			ps = append(ps, map[string]interface{}{"name": p.Name, "dims": p.Dimensions})
		}
		res.Extra[n] = map[string]interface{}{"inputs": len(d.Inputs), "outputs": len(d.Outputs), "states": len(d.States),
			"params": ps, "dimensions": d.Dimensions}
	}
	return res
}

func main() {
	if len(os.Args) >= 3 && os.Args[1] == "-specs" {
		specs, err := parseSpecs(os.Args[2])
		if err != nil {
			fatal(err)
		}
		fmt.Print(emitCoqSpecs(specs))
		return
	}
	if len(os.Args) >= 3 && os.Args[1] == "-specsjson" {
		specs, err := parseSpecs(os.Args[2])
		if err != nil {
			fatal(err)
		}
		b, _ := json.Marshal(specs)
		fmt.Println(string(b))
		return
	}
	if len(os.Args) >= 3 && os.Args[1] == "-capture" {
		files, _ := filepath.Glob(filepath.Join(os.Args[2], "*", "generated_*.go"))
		sort.Strings(files)
		var reps []*structReport
		for _, f := range files {
			r, err := analyseStructure(f, "Run", true)
			if err != nil {
				fatal(err)
			}
			reps = append(reps, r)
		}
		// the goroutine-per-model closure of ow-sim's runGeneration
		if r, err := analyseStructure(filepath.Join(os.Args[2], "..", "cmd", "ow-sim", "running.go"), "runGeneration", false); err == nil {
			reps = append(reps, r)
		}
		b, _ := json.Marshal(reps)
		fmt.Println(string(b))
		return
	}
	sc := bufio.NewScanner(os.Stdin)
	sc.Buffer(make([]byte, 1<<20), 1<<26)
	// kernels print diagnostics with fmt.Println: keep the result protocol on the real stdout and
	// send everything else that is written to os.Stdout to stderr
	realStdout := os.Stdout
	os.Stdout = os.Stderr
	w := bufio.NewWriter(realStdout)
	defer w.Flush()
	for sc.Scan() {
		f := strings.Fields(sc.Text())
		if len(f) == 0 {
			continue
		}
		var r *result
		switch f[0] {
		case "RUN":
			r = runCase(f[1:])
		case "INIT":
			r = initCase(f[1:])
		case "DESC":
			r = descDump()
		case "OUTALLOC":
			r = outAlloc(f[1:])
		case "INITSEQ":
			r = initSeq(f[1:])
		case "PARAMSEQ":
			r = paramSeq(f[1:])
		case "PGEN":
			r = pgen(f[1:])
		default:
			r = &result{Cmd: f[0], Fails: []string{"unknown command"}}
		}
		b, _ := json.Marshal(r)
		w.Write(b)
		w.WriteByte('\n')
		w.Flush()
	}
}
