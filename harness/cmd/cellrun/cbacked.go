// C-backed arrays: cdata.NewFloat64CArray over C.malloc memory with guard zones
// (the constructors libopenwater's RunSingleModel uses on caller memory).
package main

/*
#include <stdlib.h>
*/
import "C"

import (
	"fmt"
	"math"
	"unsafe"

	"github.com/flowmatters/openwater-core/data"
	"github.com/flowmatters/openwater-core/data/cdata"
)

const guardN = 16

type cBackend struct{}

func guardVal(k int) float64 { return -4.25e290 - float64(k) }

func cAlloc(n int, init []float64) (unsafe.Pointer, func() []float64, func() []string) {
	total := n + 2*guardN
	raw := C.malloc(C.size_t(total * 8))
	all := (*[1 << 30]float64)(raw)[:total:total]
	for k := 0; k < guardN; k++ {
		all[k] = guardVal(k)
		all[guardN+n+k] = guardVal(guardN + k)
	}
	copy(all[guardN:guardN+n], init)
	body := unsafe.Pointer(uintptr(raw) + guardN*8)
	get := func() []float64 { return all[guardN : guardN+n] }
	check := func() []string {
		var bad []string
		for k := 0; k < guardN; k++ {
			if math.Float64bits(all[k]) != math.Float64bits(guardVal(k)) {
				bad = append(bad, fmt.Sprintf("C guard word %d before the array overwritten", guardN-k))
			}
			if math.Float64bits(all[guardN+n+k]) != math.Float64bits(guardVal(guardN+k)) {
				bad = append(bad, fmt.Sprintf("C guard word %d after the array overwritten", k))
			}
		}
		return bad
	}
	return body, get, check
}

func (cBackend) make2(dims []int, init []float64) (data.ND2Float64, func() []float64, func() []string) {
	p, get, chk := cAlloc(len(init), init)
	return cdata.NewFloat64CArray(p, dims).(data.ND2Float64), get, chk
}
func (cBackend) make3(dims []int, init []float64) (data.ND3Float64, func() []float64, func() []string) {
	p, get, chk := cAlloc(len(init), init)
	return cdata.NewFloat64CArray(p, dims).(data.ND3Float64), get, chk
}
