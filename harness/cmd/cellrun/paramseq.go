// PARAMSEQ <Model> N k T seed backend: parameters applied REPEATEDLY to one long-lived model object.
//   ApplyParameters(p1) Run | p2 with the SAME number of sets (other values / dimension values) Run |
//   p3 with a DIFFERENT number of sets Run | every cell alone with its own column of p3 (one set each
//   time) Run | the parameter array edited IN PLACE (scalars redrawn, dimension values lowered), Run
//   without re-applying, then re-applied, Run.
// Every Run is compared bit for bit (outputs and final states) with a FRESH model object that is
// given the current parameters (same dimension extents, same initial states, same inputs).
package main

import (
	"fmt"
	"math"
	"math/rand"
	"strconv"
	"strings"

	"github.com/flowmatters/openwater-core/data"
	"github.com/flowmatters/openwater-core/sim"
)

func paramSeq(t []string) *result {
	res := &result{Cmd: "PARAMSEQ", Ok: true, Model: t[0], Extra: map[string]interface{}{}}
	fail := func(f string, a ...interface{}) {
		res.Ok = false
		if len(res.Fails) < 10 {
			res.Fails = append(res.Fails, fmt.Sprintf(f, a...))
		}
	}
	name := t[0]
	N, _ := strconv.Atoi(t[1])
	k, _ := strconv.Atoi(t[2])
	T, _ := strconv.Atoi(t[3])
	seed, _ := strconv.ParseInt(t[4], 10, 64)
	var be backend = goBackend{}
	if len(t) > 5 && t[5] == "c" {
		be = cBackend{}
	}
	refOnly := len(t) > 6 && t[6] == "ref" // only the fresh reference objects (is a crash due to the long-lived object?)
	factory := sim.Catalog[name]
	desc := factory().Description()
	rng := rand.New(rand.NewSource(seed))
	shared := map[string]float64{} // state-width parameters stay the same for the whole sequence
	switch name {
	case "GR4J":
		shared["X4"] = 0.5 + 3.5*rng.Float64()
	case "Lag":
		shared["timeLag"] = float64(1 + rng.Intn(3))
	}
	type pmat struct {
		sets []paramSet
		maxd map[string]int
		dims []int
		P    []float64
		nP   int
	}
	draw := func(nSets int) pmat {
		pm := pmat{sets: make([]paramSet, nSets), maxd: map[string]int{}}
		for c := range pm.sets {
			pm.sets[c] = genParamSet(name, desc, rng, shared, drawMode{kind: "std"}, c)
			for d, v := range pm.sets[c].dims {
				if v > pm.maxd[d] {
					pm.maxd[d] = v
				}
			}
		}
		pm.P, pm.nP = layoutParams(desc, pm.sets, pm.maxd)
		for _, d := range desc.Dimensions {
			pm.dims = append(pm.dims, pm.maxd[d])
		}
		return pm
	}
	nI, nOut := len(desc.Inputs), len(desc.Outputs)
	I := make([]float64, N*nI*T)
	for j := range I {
		I[j] = 10 * rng.Float64()
	}
	apply := func(m sim.TimeSteppingModel, pa data.ND2Float64, dims []int) {
		if len(dims) > 0 {
			m.InitialiseDimensions(dims)
		}
		m.ApplyParameters(pa)
	}
	// one Run of cells [c0, c0+n) of the input / state data on model m; returns outputs and final states
	runCells := func(m sim.TimeSteppingModel, s0 []float64, S int, c0, n int) ([]float64, []float64) {
		sa, sget, _ := be.make2([]int{n, S}, append([]float64(nil), s0[c0*S:(c0+n)*S]...))
		ia, _, _ := be.make3([]int{n, nI, T}, append([]float64(nil), I[c0*nI*T:(c0+n)*nI*T]...))
		oa, oget, _ := be.make3([]int{n, nOut, T}, make([]float64, n*nOut*T))
		m.Run(ia, sa, oa)
		return append([]float64(nil), oget()...), append([]float64(nil), sget()...)
	}
	steps := 0
	// compare the long-lived object (parameters already in place) with a fresh object on `cur`
	check := func(step string, m sim.TimeSteppingModel, cur []float64, nP, nSets int, dims []int, c0, n int) {
		steps++
		pref, _, _ := be.make2([]int{nP, nSets}, cur)
		ref := factory()
		apply(ref, pref, dims)
		st := ref.InitialiseStates(N)
		S := st.Len(1)
		s0 := make([]float64, N*S)
		for i := 0; i < N; i++ {
			for j := 0; j < S; j++ {
				s0[i*S+j] = st.Get2(i, j)
			}
		}
		o2, s2 := runCells(ref, s0, S, c0, n)
		if refOnly {
			return
		}
		o1, s1 := runCells(m, s0, S, c0, n)
		if j := bitsEqual(o1, o2); j >= 0 {
			fail("%s: outputs of the long-lived model object differ from a fresh object given the current parameters (cell %d, element %d: %v vs %v)",
				step, c0+j/maxInt(nOut*T, 1), j, at(o1, j), at(o2, j))
		}
		if j := bitsEqual(s1, s2); j >= 0 {
			fail("%s: final states of the long-lived model object differ from a fresh object given the current parameters (element %d: %v vs %v)",
				step, j, at(s1, j), at(s2, j))
		}
	}
	m := factory()
	scratch := factory()

	// 1. first parameters
	p1 := draw(k)
	pa1, _, _ := be.make2([]int{p1.nP, k}, p1.P)
	apply(m, pa1, scratch.FindDimensions(pa1))
	check("first ApplyParameters", m, p1.P, p1.nP, k, p1.dims, 0, N)
	// 2. new parameters, SAME number of sets
	p2 := draw(k)
	pa2, _, _ := be.make2([]int{p2.nP, k}, p2.P)
	apply(m, pa2, scratch.FindDimensions(pa2))
	check("second ApplyParameters (same number of sets, other values)", m, p2.P, p2.nP, k, p2.dims, 0, N)
	// 3. a different number of sets
	k3 := k + 1
	if k > 1 && rng.Intn(2) == 0 {
		k3 = 1
	}
	p3 := draw(k3)
	pa3, pget3, _ := be.make2([]int{p3.nP, k3}, p3.P)
	apply(m, pa3, scratch.FindDimensions(pa3))
	check("third ApplyParameters (different number of sets)", m, p3.P, p3.nP, k3, p3.dims, 0, N)
	// 4. every cell alone with its own parameter column (one set at a time, same extents)
	for i := 0; i < N; i++ {
		col := make([]float64, p3.nP)
		for r := 0; r < p3.nP; r++ {
			col[r] = p3.P[r*k3+i%k3]
		}
		pc, _, _ := be.make2([]int{p3.nP, 1}, col)
		apply(m, pc, p3.dims)
		check(fmt.Sprintf("cell %d alone with its own parameter column", i), m, col, p3.nP, 1, p3.dims, i, 1)
	}
	// 5. the parameter array edited in place
	apply(m, pa3, p3.dims)
	cur := pget3()
	row := 0
	edited := 0
	for pj, pd := range desc.Parameters {
		if len(pd.Dimensions) > 0 {
			sz := 1
			for _, d := range pd.Dimensions {
				sz *= p3.maxd[d]
			}
			row += sz
			continue
		}
		for c := 0; c < k3; c++ {
			old := cur[row*k3+c]
			switch {
			case isDimName(desc, pd.Name):
				if old >= 3 {
					cur[row*k3+c] = old - 1 // a shorter table: the first entries stay valid
					edited++
				}
			default:
				if _, fixed := shared[pd.Name]; !fixed {
					v, _ := genScalar(name, pd, rng, drawMode{kind: "std"}, pj, c)
					if math.Float64bits(v) != math.Float64bits(old) {
						cur[row*k3+c] = v
						edited++
					}
				}
			}
		}
		row++
	}
	res.Extra["edited_in_place"] = edited
	check("parameter array edited in place, Run WITHOUT re-applying", m, cur, p3.nP, k3, p3.dims, 0, N)
	apply(m, pa3, p3.dims)
	check("parameter array edited in place, re-applied", m, cur, p3.nP, k3, p3.dims, 0, N)
	res.Extra["steps"] = steps
	return res
}


// PGEN <Model> nSets seed: a parameter matrix from the generators of this harness (documented
// ranges; table parameters of the dimensioned models laid out with max-extent blocks; GR4J X4 /
// Lag timeLag equal across the sets), for drivers that build their own call sequences (C-ABI
// sessions of tools/cabi_sessions.py).  Prints nP, the matrix, the model's numbers of inputs /
// outputs and the state width InitialiseStates gives for these parameters.
func pgen(t []string) *result {
	res := &result{Cmd: "PGEN", Ok: true, Model: t[0], Extra: map[string]interface{}{}}
	name := t[0]
	nSets, _ := strconv.Atoi(t[1])
	seed, _ := strconv.ParseInt(t[2], 10, 64)
	factory := sim.Catalog[name]
	if factory == nil {
		res.Ok = false
		res.Fails = []string{"no such model"}
		return res
	}
	desc := factory().Description()
	rng := rand.New(rand.NewSource(seed))
	shared := map[string]float64{}
	switch name {
	case "GR4J":
		shared["X4"] = 0.5 + 3.5*rng.Float64()
	case "Lag":
		shared["timeLag"] = float64(rng.Intn(4))
	}
	mode := drawMode{kind: "std"}
	if len(t) > 3 { // PGEN <Model> nSets seed d0,d1,..: table sizes per parameter set
		for _, x := range strings.Split(t[3], ",") {
			v, _ := strconv.Atoi(x)
			mode.dims = append(mode.dims, v)
		}
	}
	sets := make([]paramSet, nSets)
	maxd := map[string]int{}
	for c := range sets {
		sets[c] = genParamSet(name, desc, rng, shared, mode, c)
		for d, v := range sets[c].dims {
			if v > maxd[d] {
				maxd[d] = v
			}
		}
	}
	P, nP := layoutParams(desc, sets, maxd)
	var ph []string
	for _, v := range P {
		ph = append(ph, hex(v))
	}
	pa, _, _ := goBackend{}.make2([]int{nP, nSets}, P)
	st := prepModel(name, pa, nil).InitialiseStates(1)
	var dims []int
	for _, d := range desc.Dimensions {
		dims = append(dims, maxd[d])
	}
	res.Extra["nP"] = nP
	res.Extra["p_hex"] = ph
	res.Extra["n_inputs"] = len(desc.Inputs)
	res.Extra["n_outputs"] = len(desc.Outputs)
	res.Extra["state_width"] = st.Len(1)
	res.Extra["max_dims"] = dims
	return res
}
