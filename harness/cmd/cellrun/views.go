// Arrays handed to Run as VIEWS of larger tables (what a driver that keeps all cells of all
// generations in one table does): offset row blocks, strided rows, padded columns, a time window
// or a stepped time axis of a longer input record, a parameter matrix cut out of a larger one.
// Oracle: (a) the results inside the views are bit-identical to the run on freshly allocated
// copies, (b) every element of the parents OUTSIDE the views keeps its sentinel, (c) two
// adjacent blocks of one table run one after the other do not disturb each other.
package main

import (
	"fmt"
	"math"

	"github.com/flowmatters/openwater-core/data"
)

// an affine placement of a view in its parent: element idx of the view is parent[origin + idx*step]
type placement struct {
	pdims  []int
	origin []int
	step   []int
	vdims  []int
}

func sentinel(k int) float64 { return -3.5e300 - float64(k%977)*1e287 }

func (p placement) parentOffset(idx []int) int {
	off := 0
	for a := range p.pdims {
		off = off*p.pdims[a] + p.origin[a] + idx[a]*p.step[a]
	}
	return off
}

// parent buffer: sentinels everywhere, `vals` (row-major over vdims) at the view's elements
func (p placement) fill(vals []float64) []float64 {
	buf := make([]float64, product(p.pdims))
	for k := range buf {
		buf[k] = sentinel(k)
	}
	forEachIndex(p.vdims, func(pos int, idx []int) { buf[p.parentOffset(idx)] = vals[pos] })
	return buf
}

func (p placement) extract(buf []float64) []float64 {
	out := make([]float64, product(p.vdims))
	forEachIndex(p.vdims, func(pos int, idx []int) { out[pos] = buf[p.parentOffset(idx)] })
	return out
}

// elements of the parent outside ALL the given placements that lost their sentinel
func outsideChanged(buf []float64, pdims []int, ps ...placement) []int {
	in := make([]bool, len(buf))
	for _, p := range ps {
		forEachIndex(p.vdims, func(pos int, idx []int) { in[p.parentOffset(idx)] = true })
	}
	var bad []int
	for k := range buf {
		if !in[k] && math.Float64bits(buf[k]) != math.Float64bits(sentinel(k)) {
			bad = append(bad, k)
		}
	}
	return bad
}

func isUnit(s []int) bool {
	for _, v := range s {
		if v != 1 {
			return false
		}
	}
	return true
}

func view2(be backend, p placement, vals []float64) (data.ND2Float64, func() []float64) {
	parent, get, _ := be.make2(p.pdims, p.fill(vals))
	var st []int
	if !isUnit(p.step) {
		st = p.step
	}
	return parent.Slice(p.origin, p.vdims, st).(data.ND2Float64), get
}

func view3(be backend, p placement, vals []float64) (data.ND3Float64, func() []float64) {
	parent, get, _ := be.make3(p.pdims, p.fill(vals))
	var st []int
	if !isUnit(p.step) {
		st = p.step
	}
	return parent.Slice(p.origin, p.vdims, st).(data.ND3Float64), get
}

// runOnViews runs the vectorised case with the arrays placed as views (variant 0..3) and compares
// with the result `A` of the run on fresh arrays.  Returns the failures.
func runOnViews(L *layout, be backend, orig, A arrays, nP int, variant int) []string {
	var fails []string
	fail := func(f string, a ...interface{}) {
		if len(fails) < 8 {
			fails = append(fails, fmt.Sprintf("views[%d]: ", variant)+fmt.Sprintf(f, a...))
		}
	}
	sd := []int{L.N, L.S}
	od := []int{L.ON, L.OK, L.OT}
	id := []int{L.NIn, L.NI, L.T}
	pd := []int{nP, L.NSets}
	fresh2 := func(d []int) placement { return placement{d, []int{0, 0}, []int{1, 1}, d} }
	fresh3 := func(d []int) placement { return placement{d, []int{0, 0, 0}, []int{1, 1, 1}, d} }
	// placements of the (first) block
	sp, op, ip, pp := fresh2(sd), fresh3(od), fresh3(id), fresh2(pd)
	var sp2, op2 *placement // second block of the same tables ("generations")
	switch variant {
	case 0: // two adjacent offset row blocks of one state table / one output table
		sp = placement{[]int{2*L.N + 1, L.S}, []int{1, 0}, []int{1, 1}, sd}
		s2 := placement{[]int{2*L.N + 1, L.S}, []int{L.N + 1, 0}, []int{1, 1}, sd}
		op = placement{[]int{2*L.ON + 1, L.OK, L.OT}, []int{1, 0, 0}, []int{1, 1, 1}, od}
		o2 := placement{[]int{2*L.ON + 1, L.OK, L.OT}, []int{L.ON + 1, 0, 0}, []int{1, 1, 1}, od}
		sp2, op2 = &s2, &o2
	case 1: // every second row of an interleaved state table with a spare column; every second cell of the outputs
		sp = placement{[]int{2 * L.N, L.S + 1}, []int{1, 0}, []int{2, 1}, sd}
		op = placement{[]int{2 * L.ON, L.OK, L.OT}, []int{0, 0, 0}, []int{2, 1, 1}, od}
	case 2: // a time window of a longer input record, parameters cut out of a larger matrix, an offset state block
		ip = placement{[]int{L.NIn, L.NI, L.T + 5}, []int{0, 0, 2}, []int{1, 1, 1}, id}
		pp = placement{[]int{nP + 2, L.NSets + 1}, []int{1, 0}, []int{1, 1}, pd}
		sp = placement{[]int{L.N + 3, L.S}, []int{2, 0}, []int{1, 1}, sd}
	case 3: // a stepped time axis and an offset block of input sequences; offset outputs with spare variables; strided states
		ip = placement{[]int{L.NIn + 1, L.NI, 2*L.T + 1}, []int{1, 0, 1}, []int{1, 1, 2}, id}
		op = placement{[]int{L.ON + 2, L.OK + 1, L.OT}, []int{2, 0, 0}, []int{1, 1, 1}, od}
		sp = placement{[]int{3*L.N + 1, L.S}, []int{1, 0}, []int{3, 1}, sd}
	}
	// build: the two blocks share their parents
	mkS := func(ps ...placement) ([]data.ND2Float64, func() []float64) {
		buf := ps[0].fill(orig.S)
		for _, p := range ps[1:] {
			forEachIndex(p.vdims, func(pos int, idx []int) { buf[p.parentOffset(idx)] = orig.S[pos] })
		}
		parent, get, _ := be.make2(ps[0].pdims, buf)
		var vs []data.ND2Float64
		for _, p := range ps {
			var st []int
			if !isUnit(p.step) {
				st = p.step
			}
			vs = append(vs, parent.Slice(p.origin, p.vdims, st).(data.ND2Float64))
		}
		return vs, get
	}
	mkO := func(ps ...placement) ([]data.ND3Float64, func() []float64) {
		buf := ps[0].fill(orig.O)
		for _, p := range ps[1:] {
			forEachIndex(p.vdims, func(pos int, idx []int) { buf[p.parentOffset(idx)] = orig.O[pos] })
		}
		parent, get, _ := be.make3(ps[0].pdims, buf)
		var vs []data.ND3Float64
		for _, p := range ps {
			var st []int
			if !isUnit(p.step) {
				st = p.step
			}
			vs = append(vs, parent.Slice(p.origin, p.vdims, st).(data.ND3Float64))
		}
		return vs, get
	}
	sps, ops := []placement{sp}, []placement{op}
	if sp2 != nil {
		sps, ops = append(sps, *sp2), append(ops, *op2)
	}
	svs, sget := mkS(sps...)
	ovs, oget := mkO(ops...)
	iv, iget := view3(be, ip, orig.I)
	pv, pget := view2(be, pp, orig.P)
	m := prepModel(L.Model, pv, nil)
	// run the LAST block first: a later block must not be disturbed by an earlier one and vice versa
	for b := len(svs) - 1; b >= 0; b-- {
		changed := watchShapes(arrNames, []shaped{pv, svs[b], iv, ovs[b]})
		m.Run(iv, svs[b], ovs[b])
		for _, c := range changed() {
			fail("block %d: %s", b, c)
		}
	}
	for b := range sps {
		if k := bitsEqual(sps[b].extract(sget()), A.S); k >= 0 {
			fail("block %d: states seen through the view differ from the run on fresh arrays at view element %d (cell %d, state %d): %v vs %v",
				b, k, k/maxInt(L.S, 1), k%maxInt(L.S, 1), sps[b].extract(sget())[k], A.S[k])
		}
		if k := bitsEqual(ops[b].extract(oget()), A.O); k >= 0 {
			fail("block %d: outputs seen through the view differ from the run on fresh arrays at view element %d (cell %d): %v vs %v",
				b, k, k/maxInt(L.OK*L.OT, 1), ops[b].extract(oget())[k], A.O[k])
		}
	}
	if bad := outsideChanged(sget(), sps[0].pdims, sps...); len(bad) > 0 {
		fail("state table: %d elements OUTSIDE the view(s) were overwritten, first at parent offset %d (row %d)", len(bad), bad[0], bad[0]/maxInt(sps[0].pdims[1], 1))
	}
	if bad := outsideChanged(oget(), ops[0].pdims, ops...); len(bad) > 0 {
		fail("output table: %d elements OUTSIDE the view(s) were overwritten, first at parent offset %d", len(bad), bad[0])
	}
	if k := bitsEqual(iget(), ip.fill(orig.I)); k >= 0 {
		fail("input record (parent of the view) modified at parent offset %d", k)
	}
	if k := bitsEqual(pget(), pp.fill(orig.P)); k >= 0 {
		fail("parameter table (parent of the view) modified at parent offset %d", k)
	}
	return fails
}

func maxInt(a, b int) int {
	if a > b {
		return a
	}
	return b
}
