// Recording implementation of data.ND{1,2,3}Float64: wraps a real (Go-backed)
// array or view, delegates every operation to it, and logs every element
// access with its ABSOLUTE flat offset in the root buffer and the id of the
// goroutine performing it.  Offsets are MEASURED (address of the element as
// handed out by the real library), not computed from a model of the library,
// and every logged read/write is validated against the root buffer.
package main

import (
	"bytes"
	"fmt"
	"math"
	"runtime"
	"strconv"
	"sync"
	"unsafe"

	"github.com/flowmatters/openwater-core/data"
)

type access struct {
	gid  uint64
	root byte // 'I','S','O','P'
	off  int32
	kind byte // 'R' read, 'W' write, 'U' raw exposure through Unroll of an aliasing view
}

type accessLog struct {
	mu       sync.Mutex
	acc      []access
	problems []string
}

func (l *accessLog) add(a access) {
	l.mu.Lock()
	l.acc = append(l.acc, a)
	l.mu.Unlock()
}
func (l *accessLog) problem(s string) {
	l.mu.Lock()
	if len(l.problems) < 20 {
		l.problems = append(l.problems, s)
	}
	l.mu.Unlock()
}

func goid() uint64 {
	var buf [64]byte
	n := runtime.Stack(buf[:], false)
	// "goroutine 123 [running]:"
	b := buf[:n]
	b = b[len("goroutine "):]
	i := bytes.IndexByte(b, ' ')
	id, _ := strconv.ParseUint(string(b[:i]), 10, 64)
	return id
}

type recRoot struct {
	name byte
	buf  []float64
	log  *accessLog
}

func (r *recRoot) offsetOfAddr(p uintptr) int {
	if len(r.buf) == 0 {
		return -1
	}
	base := uintptr(unsafe.Pointer(&r.buf[0]))
	if p < base || p >= base+uintptr(len(r.buf))*8 {
		return -1
	}
	return int((p - base) / 8)
}

type recView struct {
	root   *recRoot
	inner  data.NDFloat64
	offs   []int // per element (row-major over inner.Shape()); -1 = not in the root buffer (detached copy)
	isRoot bool  // the whole array (as handed to Run), not a view of it
}

func ones(n int) []int {
	r := make([]int, n)
	for i := range r {
		r[i] = 1
	}
	return r
}

func product(s []int) int {
	p := 1
	for _, d := range s {
		p *= d
	}
	return p
}

// row-major enumeration of all multi-indices below shape
func forEachIndex(shape []int, f func(pos int, idx []int)) {
	n := product(shape)
	if n <= 0 {
		return
	}
	idx := make([]int, len(shape))
	for pos := 0; pos < n; pos++ {
		f(pos, idx)
		for a := len(shape) - 1; a >= 0; a-- {
			idx[a]++
			if idx[a] < shape[a] {
				break
			}
			idx[a] = 0
		}
	}
}

// measure where the elements of a (real) view live
func measure(root *recRoot, v data.NDFloat64) []int {
	shape := v.Shape()
	n := product(shape)
	if n <= 0 {
		return nil
	}
	offs := make([]int, n)
	one := ones(len(shape))
	forEachIndex(shape, func(pos int, idx []int) {
		loc := append([]int(nil), idx...)
		s := v.Slice(loc, one, nil).Unroll()
		if len(s) != 1 {
			offs[pos] = -1
			return
		}
		offs[pos] = root.offsetOfAddr(uintptr(unsafe.Pointer(&s[0])))
	})
	return offs
}

func newRecRoot(name byte, dims []int, init []float64, log *accessLog) (*recView, *recRoot) {
	buf := make([]float64, len(init))
	copy(buf, init)
	root := &recRoot{name: name, buf: buf, log: log}
	inner := data.ArrayFromSliceFloat64(buf, dims)
	return &recView{root: root, inner: inner, offs: measure(root, inner), isRoot: true}, root
}

func (r *recView) wrap(v data.NDFloat64) *recView {
	return &recView{root: r.root, inner: v, offs: measure(r.root, v)}
}

func (r *recView) pos(loc []int) int {
	shape := r.inner.Shape()
	if len(loc) < len(shape) {
		return -1
	}
	p := 0
	for a := 0; a < len(shape); a++ {
		if loc[a] < 0 || loc[a] >= shape[a] {
			return -1
		}
		p = p*shape[a] + loc[a]
	}
	return p
}

func (r *recView) logAt(p int, kind byte, val float64, check bool) {
	if p < 0 || p >= len(r.offs) {
		r.root.log.problem(fmt.Sprintf("%c: access outside the view (pos %d of %d)", r.root.name, p, len(r.offs)))
		return
	}
	off := r.offs[p]
	if off < 0 {
		return // detached copy: not an access to the array
	}
	r.root.log.add(access{goid(), r.root.name, int32(off), kind})
	if check && math.Float64bits(r.root.buf[off]) != math.Float64bits(val) {
		r.root.log.problem(fmt.Sprintf("%c: recorder offset %d does not hold the value %v seen through the view (holds %v)", r.root.name, off, val, r.root.buf[off]))
	}
}

func (r *recView) logAll(kind byte) {
	g := goid()
	for _, off := range r.offs {
		if off >= 0 {
			r.root.log.add(access{g, r.root.name, int32(off), kind})
		}
	}
}

func (r *recView) aliases() bool {
	for _, o := range r.offs {
		if o >= 0 {
			return true
		}
	}
	return false
}

// ---- NDFloat64
func (r *recView) Len(axis int) int      { return r.inner.Len(axis) }
func (r *recView) Shape() []int          { return r.inner.Shape() }
func (r *recView) NDims() int            { return r.inner.NDims() }
func (r *recView) NewIndex(v int) []int  { return r.inner.NewIndex(v) }
func (r *recView) Contiguous() bool      { return r.inner.Contiguous() }
func (r *recView) Len1() int             { return r.inner.Shape()[0] }
func (r *recView) Len2() int             { return r.inner.Shape()[1] }
func (r *recView) Len3() int             { return r.inner.Shape()[2] }
func (r *recView) Get(loc []int) float64 { v := r.inner.Get(loc); r.logAt(r.pos(loc), 'R', v, true); return v }
func (r *recView) Set(loc []int, val float64) {
	r.inner.Set(loc, val)
	r.logAt(r.pos(loc), 'W', val, true)
}
// slicing / applying on the whole outputs or states array names the cell (axis 0): kind 'V'
func (r *recView) noteCell(loc []int) {
	if r.isRoot && (r.root.name == 'O' || r.root.name == 'S') && len(loc) > 0 {
		r.root.log.add(access{goid(), r.root.name, int32(loc[0]), 'V'})
	}
}
func (r *recView) Slice(loc []int, dims []int, step []int) data.NDFloat64 {
	r.noteCell(loc)
	return r.wrap(r.inner.Slice(loc, dims, step))
}
func (r *recView) Apply(loc []int, dim int, step int, vals []float64) {
	start := loc[dim]
	l := append([]int(nil), loc...)
	for i := range vals {
		l[dim] = start + i*step
		r.logAt(r.pos(l), 'W', 0, false)
	}
	r.inner.Apply(loc, dim, step, vals)
}
func (r *recView) ApplySlice(loc []int, step []int, vals data.NDFloat64) {
	r.noteCell(loc)
	target := r.wrap(r.inner.Slice(loc, vals.Shape(), step))
	target.logAll('W')
	r.inner.ApplySlice(loc, step, vals)
}
func (r *recView) CopyFrom(other data.NDFloat64) { r.ApplySlice(r.NewIndex(0), nil, other) }
func (r *recView) Unroll() []float64 {
	s := r.inner.Unroll()
	if len(s) > 0 && r.root.offsetOfAddr(uintptr(unsafe.Pointer(&s[0]))) >= 0 {
		r.logAll('U') // the caller now holds raw memory of the array
	} else {
		r.logAll('R') // a copy was made: every element was read
	}
	return s
}
func (r *recView) reshaped(v data.NDFloat64) data.NDFloat64 {
	nv := r.wrap(v)
	if !nv.aliases() && r.aliases() {
		r.logAll('R') // gathered into a detached copy
	}
	return nv
}
func (r *recView) Reshape(newShape []int) (data.NDFloat64, error) {
	v, err := r.inner.Reshape(newShape)
	if err != nil {
		return nil, err
	}
	return r.reshaped(v), nil
}
func (r *recView) MustReshape(newShape []int) data.NDFloat64 {
	v, err := r.Reshape(newShape)
	if err != nil {
		panic(err.Error())
	}
	return v
}
func (r *recView) ReshapeFast(newShape []int) (data.NDFloat64, error) {
	v, err := r.inner.ReshapeFast(newShape)
	if err != nil {
		return nil, err
	}
	return r.reshaped(v), nil
}
func (r *recView) Maximum() float64 { r.logAll('R'); return r.inner.Maximum() }
func (r *recView) Minimum() float64 { r.logAll('R'); return r.inner.Minimum() }

// index1 of Get1/Set1 (data/arrays_go.go): axis 0 for rank 1, else the first axis of extent > 1
func (r *recView) index1(loc int) []int {
	shape := r.inner.Shape()
	if len(shape) == 1 {
		return []int{loc}
	}
	idx := make([]int, len(shape))
	for i, d := range shape {
		if d > 1 {
			idx[i] = loc
			break
		}
	}
	return idx
}

type nd1 interface {
	Get1(int) float64
	Set1(int, float64)
	Apply1(int, int, []float64)
}

func (r *recView) Get1(loc int) float64 {
	v := r.inner.(nd1).Get1(loc)
	r.logAt(r.pos(r.index1(loc)), 'R', v, true)
	return v
}
func (r *recView) Set1(loc int, val float64) {
	r.inner.(nd1).Set1(loc, val)
	r.logAt(r.pos(r.index1(loc)), 'W', val, true)
}
func (r *recView) Apply1(loc int, step int, vals []float64) {
	for i := range vals {
		r.Set1(loc+i*step, vals[i])
	}
}
func (r *recView) Get2(a, b int) float64       { return r.Get([]int{a, b}) }
func (r *recView) Set2(a, b int, v float64)    { r.Set([]int{a, b}, v) }
func (r *recView) Get3(a, b, c int) float64    { return r.Get([]int{a, b, c}) }
func (r *recView) Set3(a, b, c int, v float64) { r.Set([]int{a, b, c}, v) }
