/* cdriver: calls the exported C entry point RunSingleModel of a freshly built
 * libopenwater.so on caller-owned buffers surrounded by canary zones, and prints the
 * buffers afterwards as IEEE-754 bit patterns.  One case per input line:
 *   model nInputSets nInputs T nParams nParamSets nCells nStates nOutCells nOutputs nOutT initStates
 *   <inputs hex...> <params hex...> <states hex...>
 * Output: OK O <n> hex.. S <n> hex.. C <canary_ok> */
#include <dlfcn.h>
#include <stdint.h>
#include <stdio.h>
#include <stdlib.h>
#include <string.h>

#define CAN 64
typedef void (*run_fn)(char *, double *, int, int, int, double *, int, int, double *, int, int, double *, int, int, int,
                       unsigned char);

static double unhex(const char *s) {
  uint64_t u = strtoull(s, NULL, 16);
  double d;
  memcpy(&d, &u, 8);
  return d;
}
static void phex(double d) {
  uint64_t u;
  memcpy(&u, &d, 8);
  printf(" %016llx", (unsigned long long)u);
}
/* CDRIVER_STALE=1: the caller's output buffer (and, on a cold start, its state buffer) is NOT zeroed but
 * holds stale values: a NaN payload and a large finite value, alternating (same pattern as cellrun) */
static double stale_value(size_t off) {
  if (off % 2 == 0) {
    uint64_t u = 0x7ff8dead00000000ULL | (uint64_t)(off & 0xffff);
    double d;
    memcpy(&d, &u, 8);
    return d;
  }
  return 3.25e300 + (double)(off % 1000) * 1e287;
}
static double *alloc(size_t n) {
  double *p = malloc((n + 2 * CAN) * sizeof(double));
  for (size_t i = 0; i < n + 2 * CAN; i++) p[i] = 77.0;
  return p;
}
static int canary_ok(double *p, size_t n) {
  for (size_t i = 0; i < CAN; i++)
    if (p[i] != 77.0 || p[CAN + n + i] != 77.0) return 0;
  return 1;
}

int main(int argc, char **argv) {
  void *h = dlopen(argv[1], RTLD_NOW);
  if (!h) { fprintf(stderr, "dlopen: %s\n", dlerror()); return 2; }
  run_fn run = (run_fn)dlsym(h, "RunSingleModel");
  if (!run) { fprintf(stderr, "no symbol\n"); return 2; }
  size_t cap = 1 << 24;
  char *line = malloc(cap);
  while (fgets(line, cap, stdin)) {
    char *save;
    char *tok = strtok_r(line, " \n", &save);
    if (!tok) continue;
    char model[256];
    strncpy(model, tok, 255);
    int v[11];
    for (int i = 0; i < 11; i++) v[i] = atoi(strtok_r(NULL, " \n", &save));
    int nIS = v[0], nI = v[1], T = v[2], nP = v[3], nPS = v[4], nC = v[5], nS = v[6], nOC = v[7], nO = v[8], nOT = v[9], init = v[10];
    size_t ni = (size_t)nIS * nI * T, np = (size_t)nP * nPS, ns = (size_t)nC * nS, no = (size_t)nOC * nO * nOT;
    double *in = alloc(ni), *pa = alloc(np), *st = alloc(ns), *ou = alloc(no);
    for (size_t i = 0; i < ni; i++) in[CAN + i] = unhex(strtok_r(NULL, " \n", &save));
    for (size_t i = 0; i < np; i++) pa[CAN + i] = unhex(strtok_r(NULL, " \n", &save));
    for (size_t i = 0; i < ns; i++) st[CAN + i] = unhex(strtok_r(NULL, " \n", &save));
    int stale = getenv("CDRIVER_STALE") != NULL;
    for (size_t i = 0; i < no; i++) ou[CAN + i] = stale ? stale_value(i) : 0.0;
    if (stale && init)
      for (size_t i = 0; i < ns; i++) st[CAN + i] = stale_value(i);
    double *in0 = malloc(ni * 8 + 8), *pa0 = malloc(np * 8 + 8);
    memcpy(in0, in + CAN, ni * 8);
    memcpy(pa0, pa + CAN, np * 8);
    run(model, in + CAN, nIS, nI, T, pa + CAN, nP, nPS, st + CAN, nC, nS, ou + CAN, nOC, nO, nOT, (unsigned char)init);
    int ok = canary_ok(in, ni) && canary_ok(pa, np) && canary_ok(st, ns) && canary_ok(ou, no) &&
             memcmp(in0, in + CAN, ni * 8) == 0 && memcmp(pa0, pa + CAN, np * 8) == 0;
    printf("OK O %zu", no);
    for (size_t i = 0; i < no; i++) phex(ou[CAN + i]);
    printf(" S %zu", ns);
    for (size_t i = 0; i < ns; i++) phex(st[CAN + i]);
    printf(" C %d\n", ok);
    fflush(stdout);
    free(in); free(pa); free(st); free(ou); free(in0); free(pa0);
  }
  return 0;
}
